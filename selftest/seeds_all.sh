#!/bin/bash
# usage: seeds_all.sh [name-filter]   -- re-runs every seeded change (seeded/*/patch*.diff) against the quick check
# of the property it breaks (and the other checks recorded in its meta.json); prints one line per seed.
cd "$(dirname "$0")/.."
export PV_OUT_DIR=${PV_OUT_DIR:-/tmp/pv_seeds_all}
for d in seeded/*${1}*/; do
  grep -q "\"superseded\"" "$d/meta.json" && { echo "$(basename $d): superseded (no longer a violation on the repaired tree)"; continue; }
  n=$(basename "$d")
  p="$d/patch_ported.diff"; [ -f "$p" ] || p="$d/patch.diff"
  checks=$(/venv/bin/python -c "import json,sys; m=json.load(open('$d/meta.json')); print(' '.join(sorted(m['checks_quick'])))")
  out=$(selftest/run.py patch "$p" $checks 2>&1 | grep " rc= " | tr '\n' ';')
  echo "$n: $out"
done
rm -rf "$PV_OUT_DIR"
