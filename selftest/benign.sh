#!/bin/bash
# usage: benign.sh <diff> <name>   -- a behaviour-preserving change: every quick check must stay quiet with it.
# Keeps it as benign/<name>/ (patch.diff, NOTES.md, result.txt).
cd "$(dirname "$0")/.."
diff="$1"; name="$2"
mkdir -p benign/$name
cp "$diff" benign/$name/patch.diff
[ -f "${diff%.diff}.notes.md" ] && cp "${diff%.diff}.notes.md" benign/$name/NOTES.md
export PV_OUT_DIR=/tmp/pv_benign_$name
selftest/run.py patch "$diff" C01 C02 C03 C04 C05 C06 C07 C08 C09 C10 C11 C12 C13 C14 C15 C16 C17 C18 C19 C20 2>&1 | grep -E " rc= |pinned|tests" > benign/$name/result.txt
rm -rf "$PV_OUT_DIR"
echo "$name: $(grep -c 'rc= 0' benign/$name/result.txt) quiet, $(grep -c 'rc= [12]' benign/$name/result.txt) not quiet"
