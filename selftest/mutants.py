"""Mutation catalogue for the sensitivity self-test: (id, file, old, new, properties expected to catch it).
Every mutant keeps the code importable; most pass the pinned 63 tests (checked by run.py --tests)."""
M = [
 # C01 parser
 ("c01-neg-literal-positive", "pddl_plus_parser/lisp_parsers/preconditions_parser.py",
  "                        is_positive=False,\n                    )\n                )\n                continue\n\n            if precondition_node[0] == EQUALITY_OPERATOR:",
  "                        is_positive=True,\n                    )\n                )\n                continue\n\n            if precondition_node[0] == EQUALITY_OPERATOR:", ["C01", "C02"]),
 ("c01-delete-effect-as-add", "pddl_plus_parser/lisp_parsers/effects_parser.py",
  "                        effect_node[1],\n                        new_action.signature,\n                        domain_constants,\n                        is_positive=False,",
  "                        effect_node[1],\n                        new_action.signature,\n                        domain_constants,\n                        is_positive=True,", ["C01", "C03"]),
 ("c01-inequality-as-equality", "pddl_plus_parser/lisp_parsers/preconditions_parser.py",
  "                    precondition_root.inequality_preconditions.add(", "                    precondition_root.equality_preconditions.add(", ["C01", "C02"]),
 # C02 evaluator
 ("c02-equality-test-inverted", "pddl_plus_parser/models/grounded_precondition.py",
  "[obj1 == obj2 for obj1, obj2 in preconditions.equality_preconditions]", "[obj1 != obj2 for obj1, obj2 in preconditions.equality_preconditions]", ["C02"]),
 ("c02-negative-literal-ignored", "pddl_plus_parser/models/grounded_precondition.py",
  "            else positive_condition_predicate.untyped_representation\n            not in state.serialize(),",
  "            else True,", ["C02"]),
 # C03 apply
 ("c03-add-then-delete", "pddl_plus_parser/models/grounded_effect.py",
  "        for predicate in delete_effects:", "        for predicate in []:", ["C03", "C04"]),
 ("c03-decrease-adds", "pddl_plus_parser/models/numerical_expression.py",
  "    value_to_decrease.set_value(previous_value - decrease_by)", "    value_to_decrease.set_value(previous_value + decrease_by)", ["C03", "C12"]),
 ("c03-when-on-new-state", "pddl_plus_parser/models/pddl_operator.py",
  "            if not effect.antecedents_hold(previous_state):", "            if not effect.antecedents_hold(new_state):", ["C03"]),
 # C04 exporter
 ("c04-refused-step-applied", "pddl_plus_parser/exporters/numeric_trajectory_exporter.py",
  "previous_state, allow_inapplicable_actions=self.allow_invalid_actions\n            )", "previous_state, allow_inapplicable_actions=True\n            )", ["C04"]),
 ("c04-chain-broken", "pddl_plus_parser/exporters/numeric_trajectory_exporter.py",
  "            previous_state = triplet.next_state\n", "            previous_state = triplet.previous_state\n", ["C04", "C10"]),
 # C05 problem parser
 ("c05-arity-unchecked", "pddl_plus_parser/lisp_parsers/problem_parser.py",
  "        if len(predicate_signature_items) != len(lifted_predicate.signature):", "        if False:", ["C05"]),
 ("c05-subtype-direction", "pddl_plus_parser/lisp_parsers/problem_parser.py",
  "            assert grounded_object_type.is_sub_type(lifted_predicate_types[index])", "            assert lifted_predicate_types[index].is_sub_type(grounded_object_type)", ["C05", "C06"]),
 ("c05-value-int", "pddl_plus_parser/lisp_parsers/problem_parser.py",
  "            assigned_value = float(expression[2])", "            assigned_value = float(int(float(expression[2])))", ["C05", "C09"]),
 # C06 types
 ("c06-one-level-only", "pddl_plus_parser/models/pddl_type.py",
  "        return PDDLType.is_sub_type_aux(my_type.parent, other_type)", "        return my_type.parent.name == other_type.name", ["C06"]),
 # C07 purity
 ("c07-shallow-state-copy", "pddl_plus_parser/models/pddl_state.py",
  "            fluent_name: fluent.copy()", "            fluent_name: fluent", ["C14"]),
 ("c07-default-types-shared", "pddl_plus_parser/models/pddl_domain.py",
  "        self.types = {**DEFAULT_TYPES}", "        self.types = DEFAULT_TYPES", ["C07", "C17"]),
 # C08 domain exporter
 ("c08-equality-dropped", "pddl_plus_parser/models/pddl_precondition.py",
  "            [f\"(= {o1} {o2})\" for o1, o2 in self.equality_preconditions]", "            []", ["C08"]),
 ("c08-exporter-drops-not", "pddl_plus_parser/models/pddl_predicate.py",
  "        return f\"(not ({self.name} {untyped_signature_str}))\"\n\n    def __str__(self):\n        signature_str_items = []\n        for parameter_name, parameter_type in self.signature.items():\n            signature_str_items.append(f\"{parameter_name} - {str(parameter_type)}\")",
  "        return f\"({self.name} {untyped_signature_str})\"\n\n    def __str__(self):\n        signature_str_items = []\n        for parameter_name, parameter_type in self.signature.items():\n            signature_str_items.append(f\"{parameter_name} - {str(parameter_type)}\")", ["C08"]),
 # C09 problem exporter
 ("c09-goal-fluents-dropped", "pddl_plus_parser/exporters/problem_exporter.py",
  "        goal_fluents = [fluent.to_pddl() for fluent in goal_state_fluents]", "        goal_fluents = []", ["C09"]),
 ("c09-objects-type-lost", "pddl_plus_parser/models/pddl_object.py",
  "        return f\"{self.name} - {self.type.name}\"", "        return f\"{self.name} - object\"", ["C09"]),
 # C10 trajectory parser
 ("c10-pairing-off-by-one", "pddl_plus_parser/lisp_parsers/trajectory_parser.py",
  "            previous_state = next_state.copy()", "            previous_state = previous_state.copy()", ["C10"]),
 ("c10-action-params-reversed", "pddl_plus_parser/lisp_parsers/trajectory_parser.py",
  "name=action_call_data[0], grounded_parameters=action_call_data[1:]", "name=action_call_data[0], grounded_parameters=action_call_data[:0:-1]", ["C10"]),
 # C11 tokenizer
 ("c11-no-lowercase", "pddl_plus_parser/lisp_parsers/pddl_tokenizer.py",
  "no_comments_line.lower().replace", "no_comments_line.replace", ["C11"]),
 ("c11-comment-needs-space", "pddl_plus_parser/lisp_parsers/pddl_tokenizer.py",
  "re.sub(r\";.*\", \"\", line)", "re.sub(r\"\\s;.*\", \"\", line)", ["C11"]),
 # C12 numerics
 ("c12-minus-operands-swapped", "pddl_plus_parser/models/numerical_expression.py",
  "    \"-\": lambda x, y: x - y,", "    \"-\": lambda x, y: y - x,", ["C12", "C02"]),
 ("c12-leq-strict", "pddl_plus_parser/models/numerical_expression.py",
  "    \"<=\": lambda x, y: math.isclose(x, y, rel_tol=0.0, abs_tol=EPSILON) or (x < y),", "    \"<=\": lambda x, y: (x < y),", ["C12"]),
 ("c12-print-truncates", "pddl_plus_parser/models/numerical_expression.py",
  "\"{number:.{digits}f}\".format(number=node.value, digits=decimal_digits)", "\"{number:.{digits}f}\".format(number=int(node.value * 10 ** decimal_digits) / 10 ** decimal_digits, digits=decimal_digits)", ["C12"]),
 # C13 simplifier
 ("c13-substitution-sign", "pddl_plus_parser/models/numerical_expression.py",
  "children=[AnyNode(id=\"-1\", value=-1), left_op_second_child],", "children=[AnyNode(id=\"1\", value=1), left_op_second_child],", ["C13"]),
 ("c13-pow-off-by-one", "pddl_plus_parser/models/numeric_symbolic_operations.py",
  "    for _ in range(exponent - 1):", "    for _ in range(exponent):", ["C13"]),
 # C14 state equality
 ("c14-eq-ignores-fluents", "pddl_plus_parser/models/pddl_state.py",
  "        return my_numeric_expressions == other_numeric_expressions", "        return True", ["C14"]),
 # C15 converter
 ("c15-pop-from-back", "pddl_plus_parser/multi_agent/single_agent_plan_converter.py",
  "            action, agent = plan_actions.pop(0)\n", "            action, agent = plan_actions.pop()\n", ["C15"]),
 ("c15-no-applicability-check", "pddl_plus_parser/multi_agent/single_agent_plan_converter.py",
  "        if not next_action_op.is_applicable(current_state):\n            return False", "        if False:\n            return False", ["C15"]),
 # C16 joint application
 ("c16-applicability-on-accumulated", "pddl_plus_parser/multi_agent/common.py",
  "        if operator.is_applicable(current_state) or allow_inapplicable_actions:", "        if operator.is_applicable(accumulative_changed_state) or allow_inapplicable_actions:", ["C16"]),
 ("c16-inapplicable-not-refused", "pddl_plus_parser/multi_agent/common.py",
  "            raise ValueError(\"Cannot apply an action when it is not applicable!\")\n\n    return accumulative_changed_state", "            continue\n\n    return accumulative_changed_state", ["C16"]),
 # C17 combine
 ("c17-predicates-overwritten", "pddl_plus_parser/multi_agent/multi_agent_domain_converter.py",
  "            combined_domain.predicates.update(agent_domain.predicates)", "            combined_domain.predicates = agent_domain.predicates", ["C17"]),
 ("c17-goal-duplicates", "pddl_plus_parser/multi_agent/multi_agent_problem_converter.py",
  "            combined_problem.goal_state_predicates = list(\n                set(combined_problem.goal_state_predicates)\n            )", "            pass", ["C17"]),
 # C18 renaming
 ("c18-numeric-effects-skipped", "pddl_plus_parser/models/pddl_action.py",
  "        for effect in self.numeric_effects:\n            effect.change_signature(old_to_new_parameter_names)\n", "        pass\n", ["C18"]),
 ("c18-function-signature-not-renamed", "pddl_plus_parser/models/numerical_expression.py",
  "        for node in self.root.descendants:\n            if isinstance(node.value, PDDLFunction):\n                function_to_change: PDDLFunction = node.value\n                function_to_change.change_signature(old_to_new_parameter_map)",
  "        for node in self.root.children:\n            if isinstance(node.value, PDDLFunction):\n                function_to_change: PDDLFunction = node.value\n                function_to_change.change_signature(old_to_new_parameter_map)", ["C18"]),
 # C19 logs
 ("c19-two-digit-anchor", "pddl_plus_parser/exporters/ff_output_parser.py",
  "PLAN_COMPONENT_REGEX = r\"\\d: ([\\w+ \\t?-]+)\\r?\\n\"", "PLAN_COMPONENT_REGEX = r\"^\\s*(?:step)?\\s*\\d: ([\\w+ \\t?-]+)\\r?\\n\"", ["C19"]),
 ("c19-enhsp-not-lowered", "pddl_plus_parser/exporters/enhsp_output_parser.py",
  "                plan_seq.append(line.lower())", "                plan_seq.append(line)", ["C19"]),
 # C20 grounding
 ("c20-constant-by-position", "pddl_plus_parser/models/grounding_utils.py",
  "            predicate_object_mapping[parameter_name] = parameters_map[\n                predicate_params[index]\n            ]",
  "            predicate_object_mapping[parameter_name] = parameters_map[\n                predicate_params[0]\n            ]", ["C20", "C02"]),
 ("c20-typed-form-domain-types", "pddl_plus_parser/models/grounding_utils.py",
  "            predicate_signature[domain_def_parameter] = action.signature[\n                lifted_predicate_param_name\n            ]", "            pass", ["C20"]),
]
