#!/venv/bin/python
"""Sensitivity self-test (not a registered check).

  selftest/run.py mutants [id-substring ...] [--tests]   apply each catalogue mutant to a scratch copy of the
                                                         repository and run the quick checks expected to catch it
  selftest/run.py reverts [hash ...]                     revert each 'fix:' commit of /repo in a scratch copy and
                                                         run the quick check of the property it was filed under
  selftest/run.py patch <file.diff> <Cxx> [...]          apply a patch to a scratch copy and run the given checks

The scratch copy lives under /tmp and is removed afterwards; evidence / replays of these runs go to a
temp directory (PV_OUT_DIR), never to /verif/evidence."""
import os
import re
import shutil
import subprocess
import sys
import tempfile

HERE = os.path.dirname(os.path.abspath(__file__))
ROOT = os.path.dirname(HERE)
REPO = "/repo"
sys.path.insert(0, HERE)


def scratch():
    d = tempfile.mkdtemp(prefix="pv_selftest_")
    subprocess.run(["git", "-C", REPO, "worktree", "prune"], capture_output=True)
    dst = os.path.join(d, "repo")
    subprocess.run(["rsync", "-a", "--exclude", ".git", "--exclude", "__pycache__", REPO + "/", dst + "/"], check=True)
    return d, dst


def run_check(repo_dir, prop, out_dir, tier="quick", seed="1"):
    env = dict(os.environ, PV_REPO=repo_dir, PV_OUT_DIR=out_dir, VERIF_SEED=seed)
    p = subprocess.run([os.path.join(ROOT, "check"), prop, tier], env=env, capture_output=True, text=True)
    buckets = re.findall(r"bucket=(\S+)", p.stdout)
    return p.returncode, buckets, p.stdout[-3000:] + p.stderr[-2000:]


def pinned_tests(repo_dir):
    p = subprocess.run(["/venv/bin/python", "-m", "pytest", "-q", "-p", "no:cacheprovider", "--timeout=900",
                        "--continue-on-collection-errors"], cwd=repo_dir, env=dict(os.environ, PYTHONPATH=repo_dir),
                       capture_output=True, text=True)
    m = re.search(r"(\d+) passed", p.stdout)
    return int(m.group(1)) if m else 0


def do_mutants(args):
    from mutants import M
    want_tests = "--tests" in args
    filt = [a for a in args if not a.startswith("--")]
    rows = []
    for mid, path, old, new, props in M:
        if filt and not any(f in mid for f in filt):
            continue
        d, repo = scratch()
        try:
            fp = os.path.join(repo, path)
            src = open(fp).read()
            if src.count(old) != 1:
                rows.append((mid, "NOT-APPLICABLE", f"pattern found {src.count(old)} times", ""))
                continue
            open(fp, "w").write(src.replace(old, new))
            chk = subprocess.run(["/venv/bin/python", "-c", "import pddl_plus_parser.lisp_parsers, pddl_plus_parser.exporters, pddl_plus_parser.multi_agent"],
                                 env=dict(os.environ, PYTHONPATH=repo), capture_output=True, text=True)
            if chk.returncode != 0:
                rows.append((mid, "DOES-NOT-IMPORT", chk.stderr[-200:], ""))
                continue
            passed = pinned_tests(repo) if want_tests else None
            caught, detail = [], []
            for prop in props:
                rc, buckets, out = run_check(repo, prop, os.path.join(d, "out"))
                caught.append(rc == 1)
                detail.append(f"{prop}:rc={rc}:{(buckets or ['-'])[0][:60]}")
                if rc == 2:
                    detail.append(out[-600:])
            status = "CAUGHT" if props and all(caught) else ("PARTLY" if any(caught) else ("NO-PROPS" if not props else "MISSED"))
            rows.append((mid, status, " ".join(detail), f"pinned={passed}" if want_tests else ""))
        finally:
            shutil.rmtree(d, ignore_errors=True)
        print(*rows[-1], flush=True)
    bad = [r for r in rows if r[1] not in ("CAUGHT",)]
    print(f"\n{len(rows) - len(bad)}/{len(rows)} mutants caught by every expected check; needing attention: {[r[0] for r in bad]}")
    return 0


def fix_commits():
    out = subprocess.run(["git", "-C", REPO, "log", "--format=%h %s"], capture_output=True, text=True).stdout
    return [l.split(" ", 1) for l in out.splitlines() if l.split(" ", 1)[1].startswith("fix:")]


def filed_under():
    m = {}
    for line in open(os.path.join(ROOT, "KNOWN_FINDINGS.txt")):
        if line.startswith("fixed:"):
            mm = re.match(r"fixed: property=(\S+) (\S+) ", line)
            if mm:
                m.setdefault(mm.group(2), []).append(mm.group(1))
    return m


def save_regression(replay_dir, prop, h, subject):
    """The smallest replay found with the fix reverted becomes a committed regression case: it must stay
    green on the repaired tree and turns red if the defect returns."""
    import glob
    import json
    files = glob.glob(os.path.join(replay_dir, "*.json"))
    if not files:
        return
    best = min(files, key=os.path.getsize)
    doc = json.load(open(best))
    dst = os.path.join(ROOT, "findings", prop, f"fixed_{h}.json")
    os.makedirs(os.path.dirname(dst), exist_ok=True)
    json.dump({"kind": "regression", "note": f"found with {h} reverted ({subject}); bucket {doc.get('bucket')}", "case": doc["case"]},
              open(dst, "w"), indent=1)


def do_reverts(args):
    args = [a for a in args if not a.startswith("--")]
    filed = filed_under()
    rows = []
    for h, subject in fix_commits():
        if args and not any(h.startswith(a) for a in args):
            continue
        props = filed.get(h, [])
        d = tempfile.mkdtemp(prefix="pv_selftest_")
        repo = os.path.join(d, "repo")
        try:
            subprocess.run(["git", "clone", "-q", REPO, repo], check=True)
            r = subprocess.run(["git", "-C", repo, "-c", "user.email=x@x", "-c", "user.name=x", "revert", "--no-edit", h],
                               capture_output=True, text=True)
            if r.returncode != 0:
                rows.append((h, "REVERT-CONFLICT", subject[:70], ""))
                print(*rows[-1], flush=True)
                continue
            caught, detail = [], []
            for prop in props:
                rc, buckets, out = run_check(repo, prop, os.path.join(d, "out"))
                caught.append(rc == 1)
                detail.append(f"{prop}:rc={rc}:{(buckets or ['-'])[0][:60]}")
                if rc == 1 and "--save" in sys.argv:
                    save_regression(os.path.join(d, "out", "replays", prop), prop, h, subject)
            status = "CAUGHT" if props and all(caught) else ("NOT-FILED" if not props else "MISSED")
            rows.append((h, status, subject[:70], " ".join(detail)))
        finally:
            shutil.rmtree(d, ignore_errors=True)
        print(*rows[-1], flush=True)
    bad = [r for r in rows if r[1] != "CAUGHT"]
    print(f"\n{len(rows) - len(bad)}/{len(rows)} reverted fixes detected; needing attention: {[r[0] for r in bad]}")
    return 0


def do_patch(args):
    patch, props = args[0], args[1:]
    d, repo = scratch()
    try:
        r = subprocess.run(["patch", "-p1", "-d", repo, "-i", os.path.abspath(patch)], capture_output=True, text=True)
        if r.returncode != 0:
            print("patch does not apply:", r.stdout[-500:], r.stderr[-500:])
            return 2
        for prop in props:
            rc, buckets, out = run_check(repo, prop, os.path.join(d, "out"))
            print(prop, "rc=", rc, buckets[:4])
            if rc != 1:
                print(out[-800:])
    finally:
        shutil.rmtree(d, ignore_errors=True)
    return 0


if __name__ == "__main__":
    cmd = sys.argv[1] if len(sys.argv) > 1 else "mutants"
    sys.exit({"mutants": do_mutants, "reverts": do_reverts, "patch": do_patch}[cmd](sys.argv[2:]))
