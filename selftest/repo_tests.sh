#!/bin/bash
# usage: repo_tests.sh [repo_dir]   -- runs the pinned suite (63 expected) and the per-directory
# run the repository's CI uses (273 expected) against the given tree.
R="${1:-/repo}"
cd "$R" || exit 2
echo "== pinned (expect 63 passed)"
PYTHONPATH="$R" /venv/bin/python -m pytest -q -p no:cacheprovider --timeout=900 --continue-on-collection-errors 2>&1 | tail -1
tot=0
for d in lisp_parsers_tests models_tests exporters_tests multi_agent_tests; do
  out=$(cd "$R/tests/$d" && PYTHONPATH="$R" /venv/bin/python -m pytest -q -p no:cacheprovider . 2>&1 | tail -1)
  echo "== $d: $out"
done
