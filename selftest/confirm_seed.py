#!/venv/bin/python
"""Confirms a seeded change produced in a scratch worktree and stores it under /verif/seeded/<name>/.

usage: confirm_seed.py <worktree | patch-file> <name> <property> [check ...]
(with a patch file, the demonstration <patch>.demo.py / the notes <patch>.notes.md next to it are taken along)
Steps: (1) the diff of the worktree is taken as patch.diff; (2) the pinned test command and the four
per-directory runs are executed with the change (expected 63 / 88 / 142 / 11 / 32 passed); (3) the
demonstration exits 1 with the change and 0 on a pristine copy; (4) the given checks (default: the
property's own quick check) are run against a scratch copy with the patch applied."""
import json
import os
import re
import shutil
import subprocess
import sys
import tempfile

ROOT = os.path.dirname(os.path.dirname(os.path.abspath(__file__)))
wt, name, prop = sys.argv[1], sys.argv[2], sys.argv[3]
checks = sys.argv[4:] or [prop]
dst = os.path.join(ROOT, "seeded", name)
os.makedirs(dst, exist_ok=True)


def sh(cmd, cwd=None, env=None):
    return subprocess.run(cmd, shell=True, cwd=cwd, env=env, capture_output=True, text=True)


if os.path.isfile(wt):
    patch = open(wt).read()
    base = wt[:-len(".diff")] if wt.endswith(".diff") else wt
    for src, f in ((base + ".demo.py", "demo_break.py"), (base + ".notes.md", "CHANGE_NOTES.md")):
        if os.path.exists(src):
            shutil.copy(src, os.path.join(dst, f))
else:
    patch = sh("git diff", cwd=wt).stdout
    for f in ("demo_break.py", "CHANGE_NOTES.md"):
        if os.path.exists(os.path.join(wt, f)):
            shutil.copy(os.path.join(wt, f), os.path.join(dst, f))
if not patch.strip():
    sys.exit("no change")
open(os.path.join(dst, "patch.diff"), "w").write(patch)
files = re.findall(r"^diff --git a/(\S+)", patch, re.M)

# pristine copy + patched copy (outside /repo and /verif)
tmp = tempfile.mkdtemp(prefix="pv_seed_")
try:
    for kind in ("clean", "patched"):
        d = os.path.join(tmp, kind)
        sh(f"rsync -a --exclude .git --exclude __pycache__ /repo/ {d}/")
        if kind == "patched":
            r = sh(f"patch -p1 -i {os.path.join(dst, 'patch.diff')}", cwd=d)
            if r.returncode:
                sys.exit("patch does not apply to /repo HEAD: " + r.stdout + r.stderr)
    results = {}
    for kind in ("clean", "patched"):
        d = os.path.join(tmp, kind)
        env = dict(os.environ, PYTHONPATH=d)
        out = sh("/venv/bin/python -m pytest -q -p no:cacheprovider --timeout=900 --continue-on-collection-errors 2>&1 | tail -1", cwd=d, env=env).stdout
        counts = {"pinned": int(re.search(r"(\d+) passed", out).group(1)) if re.search(r"(\d+) passed", out) else 0}
        if kind == "patched":
            for sub in ("lisp_parsers_tests", "models_tests", "exporters_tests", "multi_agent_tests"):
                o = sh("/venv/bin/python -m pytest -q -p no:cacheprovider . 2>&1 | tail -1", cwd=os.path.join(d, "tests", sub), env=env).stdout
                m = re.search(r"(\d+) passed", o)
                counts[sub] = (int(m.group(1)) if m else 0, "failed" in o)
        demo = os.path.join(dst, "demo_break.py")
        rc = sh(f"/venv/bin/python {demo}", cwd=d, env=env).returncode if os.path.exists(demo) else None
        results[kind] = {"tests": counts, "demo_exit": rc}
    caught = {}
    for c in checks:
        env = dict(os.environ, PV_REPO=os.path.join(tmp, "patched"), PV_OUT_DIR=os.path.join(tmp, "out"))
        r = subprocess.run([os.path.join(ROOT, "check"), c, "quick"], env=env, capture_output=True, text=True)
        caught[c] = {"exit": r.returncode, "buckets": re.findall(r"bucket=(\S+)", r.stdout)[:5]}
    meta = {"name": name, "property": prop, "files": files, "confirmation": results, "checks_quick": caught,
            "needs": "see CHANGE_NOTES.md", "ran": "selftest/confirm_seed.py " + " ".join(sys.argv[1:])}
    json.dump(meta, open(os.path.join(dst, "meta.json"), "w"), indent=1)
    print(json.dumps(meta, indent=1))
finally:
    shutil.rmtree(tmp, ignore_errors=True)
