#!/bin/bash
# usage: confirm_round.sh <round-tag> Cxx [Cyy ...]   -- confirms /tmp/wt/Cxx/seedA.diff and seedB.diff
tag="$1"; shift
cd "$(dirname "$0")/.."
for c in "$@"; do
  for x in A B; do
    f=/tmp/wt/$c/seed$x.diff
    if [ -s "$f" ]; then
      (selftest/confirm_seed.py "$f" "$c-$tag$x" "$c" > /tmp/confirm_${c}_$tag$x.log 2>&1 &)
    else
      echo "missing $f"
    fi
  done
done
