#!/bin/bash
# Offline setup: hypothesis beside the repository's packages (no-op when present), atheris and
# jsonschema into /verif/.deps.  Then the reference kit's self-check.
HERE="$(cd "$(dirname "${BASH_SOURCE[0]}")" && pwd)"
cd "$HERE" || exit 2
export PIP_NO_INDEX=1
/venv/bin/python -c "import hypothesis" 2>/dev/null || \
  /venv/bin/pip install -q --no-index --find-links /opt/veriftools/wheels hypothesis || exit 1
mkdir -p .deps
/venv/bin/python -c "import sys; sys.path.insert(0, '.deps'); import atheris, jsonschema" 2>/dev/null || \
  /venv/bin/pip install -q --no-index --find-links /opt/veriftools/wheels --target .deps atheris jsonschema || \
  echo "warning: atheris/jsonschema not installed; fuzz campaigns and schema validation are skipped"
PYTHONPATH="/repo:$HERE:$HERE/.deps" /venv/bin/python -c "from pv.ref import selfcheck; selfcheck.run(); print('reference kit self-check ok')" || exit 1
