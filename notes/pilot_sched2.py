import sys, threading, itertools
from sched import Sched, mk, d, base0
class Focus(Sched):
    def _tracer(self, me):
        def local(frame, event, arg):
            if event=='line': self._maybe_switch(me)
            return local
        def glob(frame, event, arg):
            if frame.f_code.co_name in ('_apply_universal_effects',): return local
            return None
        return glob
d.actions['act2'].signature.pop('?z',None)
r,steps=Focus([]).run(mk(['o1']),mk(['o2'])); print('focus steps', steps)
bad=0; tot=0; first=None
for a,b in itertools.combinations(range(1,steps+1),2):
    d.actions['act2'].signature.pop('?z',None)
    r,_=Focus([a,b]).run(mk(['o1']),mk(['o2'])); tot+=1
    if r[0][0]!='ok' or r[1][0]!='ok' or r[0][1]!=base0:
        bad+=1
        if first is None: first=(a,b,r)
print('runs',tot,'bad',bad, first)
