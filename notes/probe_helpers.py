import tempfile, os, logging
from pathlib import Path
logging.disable(logging.CRITICAL)
from pddl_plus_parser.lisp_parsers import DomainParser, ProblemParser, TrajectoryParser, PDDLTokenizer
from pddl_plus_parser.models import *
from pddl_plus_parser.exporters import *
def dom(text):
    p=Path(tempfile.mkstemp(suffix='.pddl')[1]); p.write_text(text)
    try: return DomainParser(p).parse_domain()
    finally: os.unlink(p)
def prob(text, d):
    p=Path(tempfile.mkstemp(suffix='.pddl')[1]); p.write_text(text)
    try: return ProblemParser(p, d).parse_problem()
    finally: os.unlink(p)
def st(problem):
    return State(problem.initial_state_predicates, problem.initial_state_fluents, is_init=True)
