"""Throw-away pilot for C13: random polynomial (in)equalities through the simplifier, checked by exact evaluation."""
import sys, random, collections, warnings
from fractions import Fraction
warnings.filterwarnings("ignore")
from pddl_plus_parser.models.numeric_symbolic_operations import simplify_inequality, simplify_complex_numeric_expression, simplify_equality
from pddl_plus_parser.lisp_parsers import PDDLTokenizer
FL = ["(fuel-level ?t)", "(load_limit ?x)", "(dist c1 c2)", "(g )"]
def rnd_expr(r, depth, coef):
    k = r.random()
    if depth == 0 or k < 0.3:
        return r.choice(FL) if r.random() < 0.7 else coef(r)
    op = r.choice(["+", "-", "*", "*", "+"])
    return f"({rnd_expr(r, depth-1, coef)} {op} {rnd_expr(r, depth-1, coef)})"
def icoef(r): return str(r.choice([1, 2, 3, -1, -2, 5, 0]))
def dcoef(r): return str(r.choice([0.5, 1.25, -0.75, 2, 3, 0.1]))
def ev_math(s, val):
    for f in FL: s = s.replace(f, f"F('{f}')")
    import re
    s = re.sub(r"(?<![\w.'])(-?\d+(?:\.\d+)?)(?![\w.'])", lambda m: f"Fraction('{m.group(1)}')", s)
    return eval(s, {"F": lambda n: val[n], "Fraction": Fraction})
def ev_pddl(ast, val):
    if isinstance(ast, str): return Fraction(ast)
    if ast[0] in "+-*/" and len(ast) == 3 and len(ast[0]) == 1:
        a, b = ev_pddl(ast[1], val), ev_pddl(ast[2], val)
        return a + b if ast[0] == "+" else a - b if ast[0] == "-" else a * b if ast[0] == "*" else a / b
    key = "(" + " ".join(ast) + ")" if len(ast) > 1 else f"({ast[0]} )"
    return val[key]
def check_ops(ast):
    if isinstance(ast, str): return True
    if ast[0] in ("+", "-", "*", "/"): return len(ast) == 3 and all(check_ops(x) for x in ast[1:])
    if ast[0] in ("^",) or ast[0] in (">=", "<=", "<", ">", "="): return False
    return all(isinstance(x, str) for x in ast)
def main(n, seed, coefname):
    r = random.Random(seed); coef = icoef if coefname == "i" else dcoef
    buckets = collections.Counter(); ex = {}
    for i in range(n):
        l, rr = rnd_expr(r, 2, coef), rnd_expr(r, 1, coef)
        op = r.choice([">=", "<=", "<", ">"])
        inp = f"({l} {op} {rr})"
        try: out = simplify_inequality(inp, op, decimal_digits=4)
        except Exception as e:
            b = f"exc:{type(e).__name__}:{str(e)[:40]}"; buckets[b] += 1; ex.setdefault(b, inp); continue
        try:
            ast = PDDLTokenizer(pddl_str=out).parse()
            assert ast[0] == op and len(ast) == 3 and check_ops(ast[1]) and check_ops(ast[2])
        except Exception as e:
            b = f"malformed-output"; buckets[b] += 1; ex.setdefault(b, (inp, out)); continue
        bad = None; truths = set()
        for _ in range(12):
            val = {f: Fraction(r.randint(-6, 6), r.choice([1, 2])) for f in FL}
            a, b_ = ev_math(l, val), ev_math(rr, val)
            exp = {">=": a >= b_, "<=": a <= b_, "<": a < b_, ">": a > b_}[op]
            oa, ob = ev_pddl(ast[1], val), ev_pddl(ast[2], val)
            got = {">=": oa >= ob, "<=": oa <= ob, "<": oa < ob, ">": oa > ob}[op]
            truths.add(exp)
            if exp != got: bad = (val, float(a - b_), float(oa - ob)); break
        if bad:
            b = "not-equivalent"; buckets[b] += 1; ex.setdefault(b, (inp, out, bad))
        else: buckets["ok" + ("-nontrivial" if len(truths) == 2 else "")] += 1
    for k, v in buckets.most_common(): print(v, k)
    for k, v in ex.items(): print("==", k, "\n  ", v)
main(int(sys.argv[1]), int(sys.argv[2]), sys.argv[3])
