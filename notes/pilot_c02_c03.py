"""Throw-away pilot: random fragment-F actions vs. a reference interpreter. Not framework code."""
import sys, random, itertools, collections, tempfile, os, logging
from fractions import Fraction
from pathlib import Path
logging.disable(logging.CRITICAL)
from pddl_plus_parser.lisp_parsers import DomainParser, ProblemParser
from pddl_plus_parser.models import Operator, State

TYPES = {"t": "object", "s": "t", "u": "object"}
def subtype(a, b):
    while a is not None:
        if a == b: return True
        a = TYPES.get(a) if a != "object" else None
    return b == "object" if a is None and False else False
def is_sub(a, b):
    if b == "object": return True
    while a != "object":
        if a == b: return True
        a = TYPES[a]
    return False

OBJ = {"a": "t", "b": "s", "c": "s", "e": "u"}
CONST = {"k": "s"}
UNIV = {**OBJ, **CONST}
PRED = {"p": ["t"], "q": ["t", "t"], "r": [], "w": ["u"]}
FUN = {"f": ["t"], "g": []}

def sx(x):
    return x if isinstance(x, str) else "(" + " ".join(sx(y) for y in x) + ")"

class Gen:
    def __init__(self, rnd, nested=True, forall=True, when=True, fe=True, numeric=True):
        self.r = rnd; self.nested = nested; self.forall = forall; self.when = when; self.fe = fe; self.numeric = numeric
    def terms(self, vars_, typ):
        out = [v for v, t in vars_.items() if is_sub(t, typ)]
        out += [c for c, t in CONST.items() if is_sub(t, typ)]
        return out
    def atom(self, vars_):
        for _ in range(20):
            name = self.r.choice(list(PRED))
            args = []
            ok = True
            for typ in PRED[name]:
                cands = [t for t in self.terms(vars_, typ) if t not in args]
                if not cands: ok = False; break
                args.append(self.r.choice(cands))
            if ok: return [name] + args
        return ["r"]
    def fterm(self, vars_):
        name = self.r.choice(list(FUN))
        args = []
        for typ in FUN[name]:
            c = self.terms(vars_, typ)
            if not c: return ["g"]
            args.append(self.r.choice(c))
        return [name] + args
    def expr(self, vars_, depth=2):
        k = self.r.random()
        if depth == 0 or k < 0.35: return self.fterm(vars_)
        if k < 0.6: return str(self.r.choice([0, 1, 2, 0.5, -1, 3, 1.5]))
        op = self.r.choice(["+", "-", "*"])
        return [op, self.expr(vars_, depth - 1), self.expr(vars_, depth - 1)]
    def leaf(self, vars_):
        k = self.r.random()
        if k < 0.35: return self.atom(vars_)
        if k < 0.6: return ["not", self.atom(vars_)]
        vs = [v for v in vars_]
        if k < 0.7 and len(vs) >= 2:
            x, y = self.r.sample(vs, 2)
            e = ["=", x, y]
            return e if self.r.random() < 0.5 else ["not", e]
        if self.numeric:
            while True:
                a, b = self.expr(vars_), self.expr(vars_)
                if isinstance(a, str): continue
                return [self.r.choice(["<", "<=", ">", ">=", "="]), a, b]
        return self.atom(vars_)
    def group(self, vars_, depth=1):
        op = self.r.choice(["and", "or"])
        items = [self.leaf(vars_) for _ in range(self.r.randint(1, 3))]
        if depth > 0 and self.r.random() < 0.3: items.append(self.group(vars_, depth - 1))
        return [op] + items
    def pre(self, vars_):
        items = [self.leaf(vars_) for _ in range(self.r.randint(0, 3))]
        if self.nested and self.r.random() < 0.5: items.append(self.group(vars_))
        if self.forall and self.r.random() < 0.4:
            qt = self.r.choice(["t", "s"])
            v2 = {**vars_, "?z": qt}
            body = [self.r.choice(["and", "or"])] + [self.leaf(v2) for _ in range(self.r.randint(1, 2))]
            items.append(["forall", ["?z", "-", qt], body])
        self.r.shuffle(items)
        return ["and"] + items
    def simple_eff(self, vars_):
        k = self.r.random()
        if k < 0.4: return self.atom(vars_)
        if k < 0.7 or not self.numeric: return ["not", self.atom(vars_)]
        return [self.r.choice(["assign", "increase", "decrease"]), self.fterm(vars_), self.expr(vars_, 1)]
    def cond(self, vars_):
        if self.r.random() < 0.5: return self.leaf(vars_)
        return ["and"] + [self.leaf(vars_) for _ in range(self.r.randint(1, 2))]
    def eff(self, vars_):
        items = [self.simple_eff(vars_) for _ in range(self.r.randint(1, 3))]
        if self.when and self.r.random() < 0.5:
            items.append(["when", self.cond(vars_), ["and"] + [self.simple_eff(vars_) for _ in range(self.r.randint(1, 2))]])
        if self.fe and self.r.random() < 0.4:
            qt = self.r.choice(["t", "s"])
            v2 = {**vars_, "?z": qt}
            items.append(["forall", ["?z", "-", qt], ["when", self.cond(v2), ["and"] + [self.simple_eff(v2) for _ in range(self.r.randint(1, 2))]]])
        return ["and"] + items
    def action(self):
        n = self.r.randint(0, 2)
        vars_ = {["?x", "?y"][i]: self.r.choice(["t", "s"]) for i in range(n)}
        return vars_, self.pre(vars_), self.eff(vars_)

def domain_text(vars_, pre, eff):
    params = " ".join(f"{v} - {t}" for v, t in vars_.items())
    return f"""(define (domain d) (:requirements :typing :fluents)
(:types t u - object s - t)
(:constants k - s)
(:predicates (p ?a - t) (q ?a - t ?b - t) (r) (w ?a - u))
(:functions (f ?a - t) (g))
(:action act :parameters ({params})
 :precondition {sx(pre)}
 :effect {sx(eff)}))"""

# ---------- reference semantics ----------
class Undefined(Exception): pass
def ev(e, env, st):
    if isinstance(e, str): return Fraction(e)
    if e[0] in "+-*/" and len(e) == 3 and e[0] in ("+", "-", "*", "/"):
        a, b = ev(e[1], env, st), ev(e[2], env, st)
        if e[0] == "+": return a + b
        if e[0] == "-": return a - b
        if e[0] == "*": return a * b
        if b == 0: raise Undefined()
        return a / b
    key = (e[0],) + tuple(env.get(t, t) for t in e[1:])
    if key not in st[1]: raise Undefined()
    return st[1][key]
EPS = Fraction(1, 10000)
DEFECT_K3 = os.environ.get("K3") == "1"
def holds(c, env, st):
    h = c[0]
    if h == "and": return all(holds(x, env, st) for x in c[1:])
    if h == "or": return any(holds(x, env, st) for x in c[1:])
    if h == "not": return not holds(c[1], env, st)
    if h == "forall":
        v, _, qt = c[1]
        return all(holds(c[2], {**env, v: o}, st) for o, t in UNIV.items() if is_sub(t, qt))
    if h == "=" and isinstance(c[1], str) and c[1].startswith("?"):
        return env[c[1]] == env[c[2]]
    if h in ("<", "<=", ">", ">=", "="):
        a, b = ev(c[1], env, st), ev(c[2], env, st)
        d = abs(a - b)
        if abs(d - EPS) < Fraction(1, 10**9) or (h in "<>" and d < Fraction(1, 10**9) and d != 0): raise Undefined()
        close = d <= EPS
        return {"<": a < b, ">": a > b, "<=": close or a < b, ">=": close or a > b, "=": close}[h]
    return (h,) + tuple(env.get(t, t) for t in c[1:]) in st[0]

class Conflict(Exception): pass
def successor(eff, env, st):
    adds, dels, nums = set(), set(), {}
    def collect(e, env, grp):
        h = e[0]
        if h == "and":
            for x in e[1:]: collect(x, env, grp)
        elif h == "when":
            if holds(e[1], env, st): collect(e[2], env, grp + 1 + len(str(env)))
        elif h == "forall":
            v, _, qt = e[1]
            for o, t in UNIV.items():
                if is_sub(t, qt): collect(e[2], {**env, v: o}, grp)
        elif h == "not":
            dels.add(((e[1][0],) + tuple(env.get(t, t) for t in e[1][1:]), grp))
        elif h in ("assign", "increase", "decrease"):
            key = (e[1][0],) + tuple(env.get(t, t) for t in e[1][1:])
            v = ev(e[2], env, st)
            if key in nums: raise Conflict()
            if h == "assign": nums[key] = v
            else:
                if key not in st[1]: raise Undefined()
                nums[key] = st[1][key] + (v if h == "increase" else -v)
        else:
            adds.add(((h,) + tuple(env.get(t, t) for t in e[1:]), grp))
    collect(eff, env, 0)
    A = {a for a, _ in adds}; Dd = {d for d, _ in dels}
    for a, ga in adds:
        for d_, gd in dels:
            if a == d_ and ga != gd: raise Conflict()
    facts = (set(st[0]) - Dd) | A
    fl = dict(st[1]); fl.update(nums)
    return frozenset(facts), fl

# ---------- library side ----------
def all_atoms():
    out = []
    for name, sig in PRED.items():
        for args in itertools.product(*[[o for o, t in UNIV.items() if is_sub(t, ty)] for ty in sig]):
            out.append((name,) + args)
    return out
ATOMS = all_atoms()
FLUENTS = [("g",)] + [("f", o) for o, t in UNIV.items() if is_sub(t, "t")]

def rand_state(r):
    facts = frozenset(a for a in ATOMS if r.random() < 0.45)
    fl = {k: Fraction(r.choice([-2, -1, 0, 1, 2, 3, 1, 0]) , r.choice([1, 1, 2])) for k in FLUENTS}
    return facts, fl

def problem_text(st):
    objs = " ".join(f"{o} - {t}" for o, t in OBJ.items())
    init = " ".join(sx(list(a)) for a in sorted(st[0])) + " " + " ".join(f"(= {sx(list(k))} {float(v)})" for k, v in st[1].items())
    return f"(define (problem pr) (:domain d) (:objects {objs}) (:init {init}) (:goal (and )))"

def tmpfile(text):
    fd, p = tempfile.mkstemp(suffix=".pddl"); os.write(fd, text.encode()); os.close(fd); return Path(p)

def read_state(s):
    from pddl_plus_parser.lisp_parsers import PDDLTokenizer
    ast = PDDLTokenizer(pddl_str=s.serialize()).parse()
    facts, fl = set(), {}
    for e in ast[1:]:
        if e[0] == "=": fl[tuple(e[1])] = float(e[2])
        else: facts.add(tuple(e))
    return frozenset(facts), fl

def main(n, seed, **flags):
    r = random.Random(seed)
    g = Gen(r, **flags)
    buckets = collections.Counter(); examples = {}
    stats = collections.Counter()
    for i in range(n):
        vars_, pre, eff = g.action()
        text = domain_text(vars_, pre, eff)
        dp = tmpfile(text)
        try:
            try: dom = DomainParser(dp).parse_domain()
            except Exception as e:
                b = f"parse-exc:{type(e).__name__}"; buckets[b] += 1; examples.setdefault(b, (text, None)); continue
        finally: os.unlink(dp)
        for _ in range(6):
            st = rand_state(r)
            pp = tmpfile(problem_text(st))
            try: prob = ProblemParser(pp, dom).parse_problem()
            finally: os.unlink(pp)
            lst = State(prob.initial_state_predicates, prob.initial_state_fluents, is_init=True)
            cands = [[o for o, t in UNIV.items() if is_sub(t, ty)] for ty in vars_.values()]
            args = [r.choice(c) for c in cands]
            env = dict(zip(vars_, args))
            try:
                exp_app = holds(pre, env, st)
                if DEFECT_K3: exp_app = holds(["and"] + [c for c in pre[1:] if c[0] not in ("and", "or", "forall")], env, st)
            except Undefined: stats["undef"] += 1; continue
            stats["cases"] += 1
            objs = {**prob.objects, **dom.constants}
            try:
                op = Operator(dom.actions["act"], dom, args, objs)
                got = op.is_applicable(lst)
            except Exception as e:
                b = f"app-exc:{type(e).__name__}"; buckets[b] += 1; examples.setdefault(b, (text, (st, args))); continue
            if got != exp_app:
                b = f"app-mismatch:lib={got}"; buckets[b] += 1; examples.setdefault(b, (text, (sorted(st[0]), {k: float(v) for k, v in st[1].items()}, args)))
            try: exp_succ = successor(eff, env, st)
            except (Undefined, Conflict): stats["succ-undef/conflict"] += 1; continue
            try:
                op2 = Operator(dom.actions["act"], dom, args, objs)
                ns = op2.apply(lst, allow_inapplicable_actions=True)
                gf, gfl = read_state(ns)
            except Exception as e:
                b = f"apply-exc:{type(e).__name__}"; buckets[b] += 1; examples.setdefault(b, (text, (sorted(st[0]), args))); continue
            ef, efl = exp_succ
            if gf != ef:
                b = f"succ-facts:extra={len(gf - ef) > 0},missing={len(ef - gf) > 0}"; buckets[b] += 1
                examples.setdefault(b, (text, (sorted(st[0]), args, sorted(gf - ef), sorted(ef - gf))))
            bad = [k for k in efl if k not in gfl or abs(float(efl[k]) - gfl[k]) > 1e-9] + [k for k in gfl if k not in efl]
            if bad:
                b = "succ-fluents"; buckets[b] += 1
                examples.setdefault(b, (text, (sorted(st[0]), {k: float(v) for k, v in st[1].items()}, args, bad, {k: gfl.get(k) for k in bad}, {k: float(efl[k]) for k in bad if k in efl})))
    return buckets, examples, stats

if __name__ == "__main__":
    n = int(sys.argv[1]); seed = int(sys.argv[2])
    flags = dict(kv.split("=") for kv in sys.argv[3:])
    flags = {k: v == "1" for k, v in flags.items()}
    b, ex, stt = main(n, seed, **flags)
    print("stats", dict(stt))
    for k, v in b.most_common(): print(v, k)
    for k, (text, info) in ex.items():
        print("=====", k); print(text); print(info)
