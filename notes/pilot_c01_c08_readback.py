"""Throw-away pilot: structural read-back of parsed actions (C01-(2)) and export/parse round trip (C08)."""
import sys, random, collections, os, warnings
warnings.filterwarnings("ignore")
from pilot import *
from pddl_plus_parser.models import Predicate, NumericalExpressionTree, Precondition, UniversalPrecondition, PDDLFunction
from pddl_plus_parser.exporters import DomainExporter

def x_expr(node):
    if node.is_leaf:
        v = node.value
        if isinstance(v, PDDLFunction): return [v.name] + list(v.signature.keys())
        return repr(float(v)) if not float(v).is_integer() else str(int(v))
    return [node.value, x_expr(node.children[0]), x_expr(node.children[1])]
def x_pred(p):
    a = [p.name] + list(p.signature.keys())
    return a if p.is_positive else ["not", a]
def x_cond(c):
    items = []
    for o in c.operands:
        if isinstance(o, UniversalPrecondition):
            items.append(["forall", [o.quantified_parameter, "-", o.quantified_type.name], x_cond(o)])
        elif isinstance(o, Precondition): items.append(x_cond(o))
        elif isinstance(o, Predicate): items.append(x_pred(o))
        elif isinstance(o, NumericalExpressionTree): items.append(x_expr(o.root))
        else: raise TypeError(type(o))
    items += [["=", a, b] for a, b in c.equality_preconditions]
    items += [["not", ["=", a, b]] for a, b in c.inequality_preconditions]
    return [c.binary_operator] + items
def x_group(discrete, numeric):
    return ["and"] + [x_pred(p) for p in discrete] + [x_expr(n.root) for n in numeric]
def x_action(a):
    eff = x_group(a.discrete_effects, a.numeric_effects)
    for ce in a.conditional_effects:
        eff.append(["when", x_cond(ce.antecedents.root), x_group(ce.discrete_effects, ce.numeric_effects)])
    for ue in a.universal_effects:
        for ce in ue.conditional_effects:
            eff.append(["forall", [ue.quantified_parameter, "-", ue.quantified_type.name], ["when", x_cond(ce.antecedents.root), x_group(ce.discrete_effects, ce.numeric_effects)]])
    return {k: v.name for k, v in a.signature.items()}, x_cond(a.preconditions.root), eff

def equivalent(v1, pre1, eff1, v2, pre2, eff2, r, n=40):
    if list(v1.items()) != list(v2.items()): return "signature"
    for _ in range(n):
        st = rand_state(r)
        args = [r.choice([o for o, t in UNIV.items() if is_sub(t, ty)]) for ty in v1.values()]
        env = dict(zip(v1, args))
        try: a, b = holds(pre1, env, st), holds(pre2, env, st)
        except Undefined: continue
        if a != b: return "pre"
        try: s1 = successor(eff1, env, st)
        except (Undefined, Conflict): continue
        try: s2 = successor(eff2, env, st)
        except (Undefined, Conflict): return "eff-conflict"
        if s1[0] != s2[0]: return "eff-facts"
        if any(abs(s1[1][k] - s2[1].get(k, 10**9)) > Fraction(1, 10**6) for k in s1[1]): return "eff-fluents"
    return None

def main(n, seed, **flags):
    r = random.Random(seed); g = Gen(r, **flags)
    buckets = collections.Counter(); ex = {}
    for i in range(n):
        vars_, pre, eff = g.action()
        text = domain_text(vars_, pre, eff)
        dp = tmpfile(text)
        try:
            try: d1 = DomainParser(dp).parse_domain()
            except Exception as e: buckets[f"parse1-exc:{type(e).__name__}"] += 1; continue
        finally: os.unlink(dp)
        try: xa = x_action(d1.actions["act"])
        except Exception as e: buckets[f"extract-exc:{type(e).__name__}"] += 1; ex.setdefault("extract", (text, repr(e))); continue
        why = equivalent(vars_, pre, eff, *xa, r)
        if why: b = f"readback1:{why}"; buckets[b] += 1; ex.setdefault(b, (text, sx(xa[1]), sx(xa[2]))); continue
        try: t2 = DomainExporter().extract_domain(d1)
        except Exception as e: b = f"export-exc:{type(e).__name__}"; buckets[b] += 1; ex.setdefault(b, (text, repr(e))); continue
        dp = tmpfile(t2)
        try:
            try: d2 = DomainParser(dp).parse_domain()
            except Exception as e: b = f"parse2-exc:{type(e).__name__}"; buckets[b] += 1; ex.setdefault(b, (text, t2, repr(e))); continue
        finally: os.unlink(dp)
        xb = x_action(d2.actions["act"])
        why = equivalent(*xa, *xb, r)
        if why: b = f"roundtrip:{why}"; buckets[b] += 1; ex.setdefault(b, (text, t2)); continue
        buckets["ok"] += 1
    for k, v in buckets.most_common(): print(v, k)
    for k, v in ex.items():
        print("=====", k)
        for x in v: print(x)
if __name__ == "__main__":
    flags = {k: v == "1" for k, v in (kv.split("=") for kv in sys.argv[3:])}
    main(int(sys.argv[1]), int(sys.argv[2]), **flags)
