from h import *
from pddl_plus_parser.multi_agent import PlanConverter
from pddl_plus_parser.multi_agent.common import apply_actions
D = """(define (domain ma) (:requirements :typing)
(:types agent item)
(:predicates (flag) (has ?a - agent ?i - item) (free ?i - item))
(:action setp :parameters (?a - agent) :precondition (and ) :effect (and (flag)))
(:action clrp :parameters (?a - agent) :precondition (and ) :effect (and (not (flag))))
(:action take :parameters (?a - agent ?i - item) :precondition (and (free ?i)) :effect (and (not (free ?i)) (has ?a ?i)))
)"""
d = dom(D)
p = prob("(define (problem p) (:domain ma) (:objects a1 a2 - agent i1 i2 - item) (:init (free i1) (free i2)) (:goal (and )))", d)
pf = Path(tempfile.mkstemp()[1]); pf.write_text("(setp a1)\n(clrp a2)\n(take a1 i1)\n(take a2 i2)\n(setp a2)\n")
for flag in (True, False):
    jp = PlanConverter(d).convert_plan(p, pf, ["a1","a2"], flag)
    print(flag, [str(j) for j in jp])
