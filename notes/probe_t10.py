from h import *
import tempfile, shutil
D = """(define (domain d) (:requirements :typing :fluents)
(:types t - object s - t)
(:constants k - s)
(:predicates (p ?a - t) (q ?a - t ?b - t) (r))
(:functions (f ?a - t) (g) (h2 ?a - t ?b - t))
(:action act :parameters (?x - s ?y - t)
 :precondition (and (q ?x k) (not (p ?y)) (not (= ?x ?y)) (>= (h2 ?x ?y) (f k)))
 :effect (and (q k ?y) (not (q ?x ?y)) (increase (h2 ?y ?x) (f ?x)) (when (p ?x) (and (r) (assign (f ?y) 1))) (forall (?z - s) (when (q ?z ?x) (and (not (q ?z ?x)))))))
)"""
d = dom(D)
p = prob("(define (problem p) (:domain d) (:objects a - t b c - s) (:init (q b k) (= (h2 b b) 1) (= (f k) 0)) (:goal (and )))", d)
objs = {**p.objects, **d.constants}
print('--- C20 grounding act(b, b) and act(k, a)')
for args in (['b','b'], ['k','a']):
    op = Operator(d.actions['act'], d, args, objs); op.ground()
    print(args, 'pre:', [(o, c.untyped_representation if hasattr(c,'untyped_representation') else c.to_pddl(), str(c) if hasattr(c,'object_mapping') else '') for o, c in op.grounded_preconditions])
    for ge in op.grounded_effects:
        print('   group:', sorted(str(x) for x in ge.grounded_discrete_effects), [n.to_pddl() for n in ge.grounded_numeric_effects], 'ante' if ge.grounded_antecedents else '')
    print('   typed call:', op.typed_action_call)
print('--- C18 fresh rename')
d2 = dom(D); a = d2.actions['act']
try:
    a.change_signature({'?x':'?p1','?y':'?p2'})
    print(a.signature, str(a.preconditions).replace('\n',' ').replace('\t',' '), a.effects_to_pddl().replace('\n',' ').replace('\t',' '))
    op = Operator(a, d2, ['b','a'], objs); print('apply after rename:', op.apply(st(p), allow_inapplicable_actions=True).serialize())
except Exception as e: print('EXC', type(e).__name__, e)
print('--- C14 -0.0 / int')
from pddl_plus_parser.models import PDDLFunction
f1 = PDDLFunction('g', {}); f1.set_value(0.0); f2 = PDDLFunction('g', {}); f2.set_value(-0.0); f3 = PDDLFunction('g', {}); f3.set_value(0)
print(State({}, {'(g )': f1}) == State({}, {'(g )': f2}), State({}, {'(g )': f1}) == State({}, {'(g )': f3}))
print('--- C17 combine & leak')
from pddl_plus_parser.multi_agent import MultiAgentDomainsConverter
from pddl_plus_parser.models import Domain
tmp = Path(tempfile.mkdtemp())
(tmp/'domain-a.pddl').write_text(D)
comb = MultiAgentDomainsConverter(tmp).locate_domains()
print('combined types', list(comb.types), ' fresh Domain().types:', list(Domain().types))
shutil.rmtree(tmp)
