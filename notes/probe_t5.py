from h import *
D = """(define (domain d) (:requirements :typing :fluents)
(:types t)
(:predicates (p ?x - t) (q ?x - t ?y - t) (z))
(:functions (f3 ?x - t ?y - t ?w - t) (f2 ?x - t ?y - t) (g))
(:action act :parameters (?x - t ?y - t)
 :precondition (and (q ?x ?y) (>= (f2 ?x ?y) 1))
 :effect (and (not (q ?x ?y)) (q ?y ?x) (increase (f2 ?x ?y) (- (g) 0.5)) (increase (g) 1)))
)"""
d = dom(D)
P = """(define (problem p) (:domain d) (:objects a b - t)
(:init (q a b) (q a a) (z) (= (f3 a b a) 1) (= (f3 a a b) 2) (= (f3 b a a) 3) (= (f2 a a) 4) (= (f2 a b) 5e-1) (= (g) -2.50))
(:goal (and (q b a) (>= (f2 a b) 0.12345) (z))))"""
p = prob(P, d)
print({k:(v.state_representation) for k,v in p.initial_state_fluents.items()})
print(ProblemExporter().extract_problem(p))
s = st(p)
op = Operator(d.actions['act'], d, ['a','a'], p.objects)
print('app', op.is_applicable(s))
ns = op.apply(s)
print(ns.serialize())
ns_b = op.apply(ns)
print('after reapply, first result now:', ns.serialize())
# swap rename
a = d.actions['act']
a.change_signature({'?x':'?y','?y':'?x'})
print(a.signature, str(a.preconditions), a.effects_to_pddl())
