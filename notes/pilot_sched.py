import sys, threading
from h import *
class Sched:
    """Deterministic 2-thread scheduler: threads pass a baton at line events inside library files."""
    def __init__(self, switch_points, prefix='/repo/pddl_plus_parser'):
        self.sw=set(switch_points); self.prefix=prefix
        self.cv=threading.Condition(); self.turn=0; self.steps=0; self.done=[False,False]; self.trace_log=[]
    def _tracer(self, me):
        def local(frame, event, arg):
            if event=='line':
                self._maybe_switch(me)
            return local
        def glob(frame, event, arg):
            if frame.f_code.co_filename.startswith(self.prefix): return local
            return None
        return glob
    def _maybe_switch(self, me):
        with self.cv:
            self.steps+=1
            if self.steps in self.sw and not self.done[1-me]:
                self.turn=1-me; self.cv.notify_all()
                while self.turn!=me and not self.done[1-me]: self.cv.wait()
    def run(self, f0, f1):
        res=[None,None]
        def body(me,f):
            with self.cv:
                while self.turn!=me and not self.done[1-me]: self.cv.wait()
            sys.settrace(self._tracer(me))
            try: res[me]=('ok',f())
            except Exception as e: res[me]=('exc',type(e).__name__, str(e))
            finally:
                sys.settrace(None)
                with self.cv: self.done[me]=True; self.turn=1-me; self.cv.notify_all()
        ts=[threading.Thread(target=body,args=(i,f)) for i,f in enumerate((f0,f1))]
        for t in ts: t.start()
        for t in ts: t.join()
        return res, self.steps
from t1 import D,P
d=dom(D); p=prob(P,d); s=st(p)
objs={**p.objects}
def mk(args):
    def f():
        op=Operator(d.actions['act2'], d, args, objs)
        return op.apply(s, allow_inapplicable_actions=True).serialize()
    return f
base0=mk(['o1'])(); 
import itertools
bad=0; tot=0
for a in range(1,400,7):
  for b in (a+3,a+40):
    d.actions['act2'].signature.pop('?z',None)
    r,steps=Sched([a,b]).run(mk(['o1']),mk(['o2']))
    tot+=1
    if r[0][0]!='ok' or r[1][0]!='ok' or r[0][1]!=base0:
        bad+=1
        if bad<4: print(a,b,r, steps)
print('runs',tot,'bad',bad,'steps',steps)
