from h import *
from pddl_plus_parser.models.numeric_symbolic_operations import *
from pddl_plus_parser.models.numerical_expression import *
import traceback
def tryf(f,*a,**k):
    try: return f(*a,**k)
    except Exception as e: return f"EXC {type(e).__name__}: {e}"
for e in ["2.99999 * (f ?x)", "(f ?x) / 2", "1 / ((f ?x) * (f ?x))", "(f ?x) * (f ?x) * (f ?x)", "((f ?x) + (g ?y)) * ((f ?x) - (g ?y))", "0.5 * (f ?x)", "(f ?x) - (f ?x)", "3", "(f-a b) + (fa b)", "(f ?x) / (g ?y)", "(pi ) + 1", "(f x) * 0.00001", "-(f ?x)", "(f ?x) * -1"]:
    print(repr(e), '=>', tryf(simplify_complex_numeric_expression, e))
print('--- inequality')
for e,op in [("((f ?x) + 1 >= 3)", ">="), ("(2 * (f ?x) <= (g ?y))","<="), ("((f ?x) * 2.99999 > 0)",">"), ("((f ?x) / 2 >= 1)", ">="), ("(0 <= (f ?x))","<="), ("(1 <= 2)","<=")]:
    print(repr(e), '=>', tryf(simplify_inequality, e, op))
print('--- equality')
for e in ["(f ?x) + (g ?y) = 3", "(f ?x) = (f ?x)", "2 * (f ?x) = 4", "(f ?x) = (g ?y)"]:
    print(repr(e), '=>', tryf(simplify_equality, e))
