from h import *
from pddl_plus_parser.multi_agent import MultiAgentTrajectoryExporter
from t9 import D as MAD
import tempfile
d = dom(MAD)
p = prob("(define (problem p) (:domain ma) (:objects a1 a2 - agent i1 i2 - item) (:init (free i1) (free i2)) (:goal (and )))", d)
ex = MultiAgentTrajectoryExporter(d)
tr = ex.parse_plan(p, action_sequence=["[(take a1 i1),(take a2 i2)]", "[(nop ),(setp a2)]", "[(clrp a1),(nop )]"])
lines = ex.export(tr); print(''.join(lines))
tf = Path(tempfile.mkstemp()[1]); tf.write_text(''.join(lines))
obs = TrajectoryParser(d, p).parse_trajectory(tf, executing_agents=["a1","a2"])
for i, c in enumerate(obs.components):
    print(str(c.grounded_joint_action), c.next_state == tr[i].next_state, c.previous_state == tr[i].previous_state)
# inapplicable member
try:
    ex.parse_plan(p, action_sequence=["[(take a1 i1),(take a2 i1)]", "[(take a1 i1),(nop )]"])
    print('no error for inapplicable second step')
except Exception as e: print('EXC', type(e).__name__, e)
