from h import *
def types_of(tstr):
    d = dom(f"(define (domain d) (:requirements :typing) (:types {tstr}) (:predicates (p ?x - object)))")
    return {n:(t.parent.name if t.parent else None) for n,t in d.types.items()}, d
for ts in ["a - object b - a c - b", "c - b b - a a - object", "b - a a - object", "a b - t", "a - b b - c c", "x y", "a - object a - b"]:
    tp, d = types_of(ts)
    print(ts, '=>', tp)
    names = list(d.types)
    print('   subtypes:', [(x,y) for x in names for y in names if x!=y and d.types[x].is_sub_type(d.types[y]) and y!='object'])
# untyped domain
try:
    d = dom("(define (domain d) (:requirements :strips) (:predicates (p ?x) (q ?x ?y)) (:action a :parameters (?x ?y) :precondition (and (p ?x)) :effect (and (q ?x ?y))))")
    print(d.types, d.predicates['q'].signature)
    p = prob("(define (problem p) (:domain d) (:objects a b c) (:init ) (:goal (and )))", d)
    print('untyped objs', p.objects)
    p = prob("(define (problem p) (:domain d) (:objects a b c - object) (:init (p a) (q a a)) (:goal (and (p b))))", d)
    print('typed objs', {k:str(v) for k,v in p.objects.items()}, st(p).serialize())
    print(ProblemExporter().extract_problem(p))
except Exception as e:
    import traceback; traceback.print_exc()
