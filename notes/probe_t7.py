from h import *
import tempfile, re
from pddl_plus_parser.exporters.ff_output_parser import MetricFFParser
from pddl_plus_parser.models.numerical_expression import COMPARISON_OPERATORS
D = """(define (domain d) (:requirements :typing :fluents)
(:types t1 t2)
(:predicates (p ?x - t1))
(:functions (f ?x - t1 ?y - t2) (dist ?x - t1 ?y - t1) (g))
(:action mv :parameters (?x - t1 ?y - t1)
 :precondition (and (p ?x))
 :effect (and (not (p ?x)) (p ?y) (increase (g) (dist ?x ?y))))
)"""
d = dom(D)
def tryp(txt):
    try: p = prob(txt, d); return 'ACCEPTED ' + st(p).serialize().strip() + ' goals=' + str([g.to_pddl() for g in p.goal_state_fluents])
    except Exception as e: return f'EXC {type(e).__name__}'
print('a1 fluent wrong type via repeat:', tryp("(define (problem p) (:domain d) (:objects a - t1 b - t2) (:init (= (f a a) 1)) (:goal (and )))"))
print('a2 fluent wrong type plain:', tryp("(define (problem p) (:domain d) (:objects a c - t1 b - t2) (:init (= (f a c) 1)) (:goal (and )))"))
print('a3 goal fluent undeclared obj:', tryp("(define (problem p) (:domain d) (:objects a - t1 b - t2) (:init ) (:goal (and (>= (f zz b) 1))))"))
print('a4 goal fluent arity:', tryp("(define (problem p) (:domain d) (:objects a - t1 b - t2) (:init ) (:goal (and (>= (g a b) 1))))"))
# b: trajectory roundtrip
p = prob("(define (problem p) (:domain d) (:objects a c - t1 b - t2) (:init (p a) (= (dist a a) 0) (= (dist a c) 2.5) (= (dist c a) 2.5) (= (dist c c) 0) (= (g) 0)) (:goal (and (p c))))", d)
te = TrajectoryExporter(d)
tr = te.parse_plan(p, action_sequence=["(mv a c)", "(mv c c)"])
lines = te.export(tr)
print(''.join(lines))
tf = Path(tempfile.mkstemp()[1]); tf.write_text(''.join(lines))
obs = TrajectoryParser(d, p).parse_trajectory(tf)
for comp in obs.components: print(comp.grounded_action_call, comp.next_state.serialize().strip(), comp.next_state == tr[obs.components.index(comp)].next_state)
# d: FF word-only trailer
log = "ff: found legal plan as follows\nstep    0: MV A C\n        1: MV C C\nsearch finished\n\ntime spent: 0.0\n"
lf = Path(tempfile.mkstemp()[1]); lf.write_text(log)
print(MetricFFParser().get_solving_status(lf))
# e: rel tol
print('eq 1e6 vs 1e6+2e-4:', COMPARISON_OPERATORS['='](1000000.0, 1000000.0002), ' at 1:', COMPARISON_OPERATORS['='](1.0, 1.0002))
# g
from pddl_plus_parser.models import PDDLFunction
