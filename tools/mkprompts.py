#!/venv/bin/python
"""Writes the seeding prompts for one more round: one text per property, made only of the property's own text
(properties.jsonl) and the one-line 'needs' of every earlier seeded change of that property (seeded/*/meta.json).
usage: tools/mkprompts.py <out-dir> [<worktree-root>=/tmp/wt]"""
import glob, json, os, sys
ROOT = os.path.dirname(os.path.dirname(os.path.abspath(__file__)))
out = sys.argv[1]; wt = sys.argv[2] if len(sys.argv) > 2 else "/tmp/wt"
os.makedirs(out, exist_ok=True)
props = [json.loads(l) for l in open(os.path.join(ROOT, "properties.jsonl")) if l.strip()]
earlier = {}
for m in sorted(glob.glob(os.path.join(ROOT, "seeded", "*", "meta.json"))):
    j = json.load(open(m))
    files = ", ".join(os.path.basename(f) for f in j.get("files", []))
    earlier.setdefault(j["property"], []).append("  - (%s) %s" % (files, j.get("needs", "")))
T = """You are working in a scratch git worktree of the Python library pddl_plus_parser at {d} . Work ONLY inside {d}: do not read or modify /repo, /verif or any other checkout. Run Python as `PYTHONPATH={d} /venv/bin/python` (this makes the worktree's sources take precedence). NEVER use `git stash` (the stash is shared between worktrees and other agents work concurrently).

Existing tests: `cd {d} && PYTHONPATH={d} /venv/bin/python -m pytest -q -p no:cacheprovider --timeout=900 --continue-on-collection-errors` must end with "63 passed" (the "34 failed, 176 errors" in that line are the normal baseline of that command, because fixtures are resolved against the cwd). In addition the per-directory runs `cd {d}/tests/<lisp_parsers_tests|models_tests|exporters_tests|multi_agent_tests> && PYTHONPATH={d} /venv/bin/python -m pytest -q -p no:cacheprovider .` pass 88 / 142 / 11 / 32 tests and must keep passing.

Here is a semantic property the library is supposed to satisfy:

ID: {id}
Title: {title}
Statement: {statement}
Quantified over: {quant}
Code anchors: {anchors}

TASK: produce TWO INDEPENDENT changes, A and B, each of which (applied alone to the unchanged source) BREAKS this property while the package still imports and ALL the test runs above still pass. Each must be ONE small, realistic change to the library source (under {d}/pddl_plus_parser) - the kind of bug a developer could plausibly introduce during a refactoring, an optimisation, a "robustness" or "performance" improvement or a feature tweak. Each must need something specific to manifest: an unusual but legitimate input, a particular multi-step sequence of API calls, a specific combination of PDDL features, a certain iteration order, a particular configuration, or two cooperating sites that each look fine alone - NOT something ordinary use or a trivial smoke test exposes at once - and must break THIS property (read the anchored code first; follow its calls into helpers, model classes and utility modules - a change there counts when the broken behaviour is a violation of this property). A and B must be in different functions and rely on different triggers.

Many changes were already made for this property in earlier exercises (listed below with the file they touched and what they needed to manifest). Yours must be DIFFERENT IN KIND from all of them: a different mechanism AND a different trigger. Prefer code paths none of them touched.
{earlier}
Prefer a change whose effect is a silently wrong result over one that raises; prefer a trigger where two legitimate features must coincide over a single magic value; do not re-introduce a defect that the repository's git history shows as already fixed (`git log --oneline | grep fix:` lists them).

For each change X in (A, B): save it as {d}/seedX.diff (made with `git diff > seedX.diff`, applicable with `git apply`), write a demonstration program {d}/seedX.demo.py (plain Python, builds its own small scenario, exits 0 when the property holds on it and exits 1 printing what went wrong when it is violated; it must exit 1 with change X applied and exit 0 on the unchanged code - verify both), and notes {d}/seedX.notes.md (what you changed, why it breaks the property, exactly what is needed for it to manifest, the commands you ran and their results incl. test counts with the change). Work on one change at a time: apply, verify, `git diff > ...`, then `git checkout -- pddl_plus_parser` before starting the next. At the end leave the worktree source UNCHANGED (only the untracked seedA.* / seedB.* files). Finish with a short summary of both changes.
"""
for p in props:
    d = "%s/%s" % (wt, p["id"])
    anchors = p.get("anchors") or p.get("code_anchors") or []
    anchors = anchors.get("files", []) if isinstance(anchors, dict) else anchors
    anchors = ", ".join(a if isinstance(a, str) else a.get("path", a.get("file", str(a))) for a in anchors)
    q = p.get("quantifier", {}); quant = q.get("text", "") if isinstance(q, dict) else str(q)
    open(os.path.join(out, p["id"] + ".txt"), "w").write(T.format(d=d, id=p["id"], title=p["title"], statement=p["statement"], quant=quant, anchors=anchors, earlier="\n".join(earlier.get(p["id"], []))))
print("wrote", len(props), "prompts to", out)
