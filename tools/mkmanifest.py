#!/venv/bin/python
"""Regenerates MANIFEST.json from the per-property metadata below (kept valid at all times)."""
import json, os, sys
ROOT = os.path.dirname(os.path.dirname(os.path.abspath(__file__)))
sys.path.insert(0, ROOT)

META = {
 "C01": dict(
   technique="Hypothesis-driven grammar-based generation of domain ASTs + outside-form injection; read-back through public attributes compared with the source AST structurally and under a reference interpreter",
   text="Generated fragment-F domains (and the same with one outside form injected) are rendered with generated layout/case/comments, parsed by the library and read back through public attributes; vocabulary and every action must equal the source (canonical structure, else behaviour on calls x states); outside forms must be faithful or raise at parse / first grounding / first evaluation.",
   note="Trusts the reference model (unit-tested at start-up) and the read-back walker (public attributes). Known finding K2 (lifted function term with repeated parameter) judged against a defect model.",
   design="6/C01"),
 "C02": dict(
   technique="bounded-exhaustive truth-table sweep + Hypothesis generation against an independent reference evaluator (exact rationals)",
   text="is_applicable of operators built from generated domains is compared with the reference truth value of the source precondition for generated (call, state) pairs, and exhaustively for every formula of a bounded family x every call x every assignment of the mentioned atoms x 3 valuations.",
   note="Trusts the reference evaluator. Known finding K3 (nested and/or/forall groups treated as true) is judged against a defect model: a deviation is excused only if the library equals the model exactly.",
   design="6/C02"),
 "C03": dict(
   technique="Hypothesis generation + harness-owned permutations of effect collections against a reference successor function",
   text="Operator.apply on generated (domain, call, state) cases whose firing effects are consistent; the serialized result is read by an independent reader and must equal the reference successor under the natural order and under drawn permutations of lifted/grounded effect sets and of the object table.",
   note="Trusts the reference successor. K3 through 'when' conditions judged against the defect model.",
   design="6/C03"),
 "C04": dict(
   technique="Hypothesis generation of (domain, problem, plan) histories against a step-by-step reference execution; exported text re-read with an independent reader",
   text="TrajectoryExporter.parse_plan / export on generated plans with applicable and inapplicable steps interleaved (both settings of allow_invalid_actions): entered through parse_plan on a list and through a plan file; one triplet per line in order, first pre-state = initial state, chaining, reference successor on applicable steps, unchanged state on refused steps, exported text equals the triplets, direct apply of an inapplicable step raises.",
   note="Once a step has no defined reference outcome only chaining is checked for the rest of that plan.",
   design="6/C04"),
 "C05": dict(
   technique="Hypothesis generation of problem ASTs + single-point corruptions; oracle = source AST and an independent well-formedness checker (reference type closure)",
   text="Valid generated problem texts must parse to exactly the AST (objects/types, facts, fluent values, goal literals, goal conditions); corrupted texts that the reference declares ill-formed must raise, corruptions that stay well-formed (subtype direction) must parse faithfully.",
   note="Known findings: goal conditions are not validated (K6), function terms with a repeated object lose an argument in goal conditions (K2), fluents of arity >= 3 with a repeated object are re-ordered (K2, excluded by construction and counted).",
   design="6/C05"),
 "C06": dict(
   technique="bounded-exhaustive enumeration of type forests x declaration permutations/regroupings + Hypothesis generation; oracle = reflexive-transitive closure",
   text="For every forest up to a size bound under every permutation and regrouping of its declaration lines: is_sub_type on all ordered pairs, keys of domain.types, hierarchy graph edges, acceptance of problem facts/fluents for every (object type, required type) pair, constants of every type, and the set of objects touched by forall effects must all equal the closure of the declared tree.",
   note="Trusts the reference closure (unit-tested).",
   design="6/C06"),
 "C09": dict(
   technique="Hypothesis generation + all shipped problem files; round trip through the library's exporter and parser compared via public attributes and with the source AST",
   text="parse -> export (string and file) -> parse must preserve name, objects/types, facts, fluent values exactly, goal literals and goal conditions; empty sections stay empty; exported text is balanced.",
   note="Known findings K2 (ternary repeat re-ordered; goal function term with repeated object) judged against models / excluded and counted.",
   design="6/C09"),
 "C10": dict(
   technique="Hypothesis generation of trajectories; round trip exporter -> file -> TrajectoryParser compared by the library's == and by independently read text",
   text="Generated (domain, problem, plan) -> triplets -> exported file -> Observation with and without the problem's object table: one component per action, same calls, same states (== both ways and text read-back), chained; the shipped single-agent trajectory files are parsed and compared with an independent reading of the same text.",
   note="Deduced-objects mode only when every object occurs in the first state (documented precondition). A second stream (joint) does the same for multi-agent trajectories (executing_agents, nop padding).",
   design="6/C10"),
 "C12": dict(
   technique="bounded-exhaustive + Hypothesis generation against exact rational arithmetic on the float inputs; one interpreter per EPSILON / NUMERIC_PRECISION configuration",
   text="Expression trees evaluated through the direct API and through one-condition / one-effect actions must equal exact arithmetic (prefix operand order); = <= >= hold within the configured absolute tolerance and < > are strict, probed 0, 0.5, 1 and 2 tolerances apart at magnitudes 1, 1e3, 1e6; assign/increase/decrease; to_pddl(d) re-read by the library keeps structure, constants within half a unit of the last decimal and values when representable.",
   note="Comparison pairs are single fluents/constants so the library's only float operation is an exact subtraction; computed expressions near a boundary are skipped.",
   design="6/C12"),
 "C13": dict(
   technique="Hypothesis generation of polynomial / rational conditions; outputs re-read by the library and an independent reader and compared with the input by exact evaluation at rational points (scale-invariant, rounding-aware)",
   text="For simplify_complex_numeric_expression, simplify_inequality (with elimination assumptions), simplify_equality, simplify_complex_numerical_pddl_expression and Precondition.print(should_simplify=True): output is binary-operator PDDL over the input's fluents accepted by the library's reader, and lhs-rhs of the output equals k times lhs-rhs of the input (k>0, or k!=0 for equalities) at 24 rational points satisfying the elimination equalities, within the rounding the requested digits allow; omitted conditions must be implied.",
   note="Known finding K4 (a side that ends up without fluents is printed as None / a bare number; regex-based symbol extraction) judged against a model; inputs undefined on every point are skipped.",
   design="6/C13"),

 "C14": dict(
   technique="bounded-exhaustive pairwise comparison over a small universe + Hypothesis generation; states built along independent routes; oracle = reference (fact set, fluent map) equality",
   text="Library == must coincide with reference equality for states built by the problem parser, the trajectory parser, direct construction in permuted order, copy and as successors; reflexive/symmetric; copies equal and independent under in-place mutation of containers, facts and fluents; serializations read back (independent reader and parse_state) as equal exactly for equal states; -0.0 == 0.0.",
   note="Fluent values are floats as every parser of the library produces them.",
   design="6/C14"),
 "C18": dict(
   technique="Hypothesis generation of actions x injective renamings (fresh, permutations, chains); oracle = alpha-renamed source AST + differential against an untouched twin",
   text="After Action.change_signature(map) the schema read back through public attributes must equal the renamed source (canonical structure, else behaviour), with the same number, order and types of parameters; the renamed action must answer every (call, state) probe like an untouched twin parsed from the same text.",
   note="Maps cover the action's parameters only; probes whose effects conflict are excluded.",
   design="6/C18"),

 "C07": dict(
   technique="history (operation-sequence) generation with per-step invariants in the style of a rule-based state machine; canonical digests of every live object after every call; deterministic two-thread line-level scheduler for interleavings",
   text="Generated histories of up to 30/60 API calls (parse, ground, applicability, apply with every flag combination, re-apply pooled operators to earlier and later states, print, export, trajectory export, combine agent domains, fresh Domain()) over pools of domains, states and operators; after every call the digest (read-back through public attributes + exported/serialized text) of every pooled domain and state and of the module-level type table is unchanged and repeated queries return the recorded answers.  A second stream runs two operations (apply / applicability / export / print) on one shared domain under a deterministic scheduler whose switch points are part of the case: each must return what it returns alone and the domain digest must not change.",
   note="Module-level library state is reset at the top of every case. Probes whose effects conflict are only checked for purity, not for repeatability. Two-thread schedules: drawn switch points plus six stratified single-preemption points per pair; outcomes of operators with an object table are also compared with the reference interpreter.",
   design="6/C07"),
 "C08": dict(
   technique="Hypothesis generation + all shipped domain files; round trip through DomainExporter and DomainParser compared via read-back and the reference interpreter; permuted set orders",
   text="text -> d1 -> export -> d2 -> export -> d3: vocabulary of d2 equals the source, every action of d2 read back is equivalent to the source (canonical structure, else behaviour on calls x states), d3 equals d2, export under permuted iteration orders of operand/effect sets gives an equivalent domain; every shipped domain file round-trips (first parse vs second parse).",
   note="Known finding K5: rich numeric conditions in nested/when/forall positions are printed through the simplifier (excluded by construction, counted; reproducer committed).",
   design="6/C08"),
 "C15": dict(
   technique="Hypothesis generation of valid sequential multi-agent plans (reference random walks); validity predicates over the returned joint plan evaluated by the reference interpreter",
   text="PlanConverter.convert_plan on generated STRIPS / numeric multi-agent domains with 2-4 agents: conservation of actions, per-agent order, slot discipline, applicability of every member in the step's pre-state, semantic non-interference of a step's members (all orders executable and confluent), equal final state; both settings of the concurrency constraint, both plan-file layouts.",
   note="Known finding K10 (preconditions and numeric reads are invisible to the converter's interference test) judged against a model of the criterion the converter does apply (also as an executable model of when the converter must raise). The shipped plans under tests/ are converted too.",
   design="6/C15"),
 "C16": dict(
   technique="Hypothesis generation of joint actions; every permutation of the members against the reference interpreter; exporter output re-read independently and through TrajectoryParser",
   text="apply_actions on every permutation of the non-nop members of generated joint actions (1-4 members, nop padding anywhere) returns the reference state when members are applicable and confluent, refuses an inapplicable member unless allowed; MultiAgentTrajectoryExporter gives one chained step per joint action whose text reads back to the same states and parses back with executing_agents.",
   note="Interfering-but-applicable joint actions are counted and skipped (unspecified by the property). One-agent worlds, zero-parameter actions, all-nop steps and nop entries inside apply_actions are generated.",
   design="6/C16"),
 "C17": dict(
   technique="Hypothesis generation of full domain/problem + overlapping closed per-agent splits; oracle = the union; discovery order imposed by wrapping Path.glob; digests of unrelated domains before/after",
   text="MultiAgentDomainsConverter / MultiAgentProblemsConverter on generated splits into 1-4 overlapping agent files: combined vocabulary, action behaviour, objects, facts, fluents and goals equal the union for every discovery order (all permutations up to 24), with and without dummy actions; the exported combination re-parses to the same thing; Domain().types, previously parsed typed/untyped domains and later parses are unchanged.",
   note="Known finding K2 (goal function term with repeated object) judged against its model.",
   design="6/C17"),
 "C19": dict(
   technique="Hypothesis generation of planner logs from a grammar modelled on the shipped Metric-FF output and of ENHSP plans; oracle = the generated plan",
   text="get_solving_status / parse_plan on generated Metric-FF logs (0-150 steps, varied headers, trailers, indentation, number width, LF/CRLF, no-solution markers) return exactly the plan's steps lower-cased in order, or no-solution / timeout with no actions; ENHSP plans are returned and rewritten lower-cased in order.",
   note="Noise lines never contain a digit followed by ': ' (such a line is syntactically a plan step). Runs once with logging disabled and once with every logger at DEBUG (separate interpreters).",
   design="6/C19"),

 "C11": dict(
   technique="bounded-exhaustive enumeration + Hypothesis generation against an independent reference reader (differential), atheris campaign in thorough",
   text="Differential test of PDDLTokenizer against a 40-line character-level reference reader: every token tree up to a node bound under every single-separator substitution and every single parenthesis deletion/insertion (exhaustive), plus generated larger trees/layouts/cases; both string and file input.",
   note="Trusts the reference reader (unit-tested at start-up). ASCII only; blanks = space, tab, CR, LF. One known finding (trailing text accepted) is judged against a defect model.",
   design="6/C11"),
 "C20": dict(
   technique="Hypothesis generation; oracle = positional substitution on the source AST, compared as sets both ways",
   text="For generated actions and type-correct calls (repeated objects, constants, subtype objects) the grounded precondition literals / numeric conditions, per-group add/delete/numeric effects, typed literal text and typed action call reported by the library must equal the source with parameters replaced positionally.",
   note="Literals inside forall groups are not compared. Known findings K3 (nested literals omitted) and K2 (function term with repeated object printed with one argument) judged against defect models.",
   design="6/C20"),
}

def main():
    props = [json.loads(l) for l in open(os.path.join(ROOT, "properties.jsonl"))]
    checks, na = [], []
    for p in props:
        pid = p["id"]
        if pid in META and os.path.exists(os.path.join(ROOT, "pv", "props", pid.lower() + ".py")):
            m = META[pid]
            checks.append({
                "property_id": pid,
                "quick_cmd": f"./check {pid} quick",
                "thorough_cmd": f"./check {pid} thorough",
                "evidence_file": f"/verif/evidence/{pid}.json",
                "replay_cmd_template": f"./check {pid} quick --replay {{path}}",
                "engine": "pv",
                "level_claimed": {"category": "exploration", "text": m["text"], "design_ref": m["design"]},
                "level_note": m["note"],
                "technique": m["technique"],
            })
        else:
            na.append({"property_id": pid, "reason": "check not built yet (build in progress; see DESIGN.md section 9)"})
    man = {
        "version": 1,
        "setup_cmd": "./setup.sh",
        "hooks": {"guard": "PDDL_PLUS_PARSER_VERIF", "enable": "no source hooks: checks import the working tree of /repo directly (PYTHONPATH) in a fresh process; the guard variable is exported by ./check but nothing in the repository reads it",
                  "baseline_off_cmd": "cd /repo && /venv/bin/python -m pytest -ra -q -p no:cacheprovider --timeout=900 --continue-on-collection-errors",
                  "source_commits": [], "add_only": True},
        "engines": [{"name": "pv", "path": "/verif/pv", "serves_properties": [c["property_id"] for c in checks],
                     "kind_free_text": "Hypothesis 6.168 strategies + bounded-exhaustive enumeration (multiprocessing) + atheris targets, against an independent reference PDDL reader/interpreter with exact rational arithmetic"}],
        "checks": checks,
        "not_applicable": na,
        "notes": "Every check: exit 0 held / exit 1 with VIOLATION lines / exit 2 harness error. KNOWN_FINDINGS.txt lists recorded defects (KNOWN-FINDING lines) and fixed ones. Generated streams run on 16 shards and stop drawing after a wall-clock budget (240 s quick, 7200 s thorough; PV_BUDGET_S) - a budget stop is recorded in the evidence (budget_stop) and is never a violation. Regression cases of repaired defects (findings/<id>/fixed_*.json) and the bounded-exhaustive parts run first in both tiers. selftest/ holds the sensitivity harness (42 mutants, reverts of the fix commits, %d seeded changes under seeded/, %d behaviour-preserving refactorings under benign/)." % (len(os.listdir(os.path.join(ROOT, "seeded"))), len(os.listdir(os.path.join(ROOT, "benign")))),
    }
    with open(os.path.join(ROOT, "MANIFEST.json"), "w") as fh:
        json.dump(man, fh, indent=1)
    try:
        sys.path.insert(0, os.path.join(ROOT, ".deps"))
        import jsonschema
        jsonschema.validate(man, json.load(open("/root/.vp/MANIFEST.schema.json")))
        es = json.load(open("/root/.vp/EVIDENCE.schema.json"))
        for c in checks:
            f = c["evidence_file"]
            if os.path.exists(f):
                jsonschema.validate(json.load(open(f)), es)
        print("manifest + evidence validate;", len(checks), "checks,", len(na), "not_applicable")
    except ImportError:
        print("jsonschema missing; not validated")

main()
