#!/venv/bin/python
"""Regenerates MANIFEST.json from the per-property metadata below (kept valid at all times)."""
import json, os, sys
ROOT = os.path.dirname(os.path.dirname(os.path.abspath(__file__)))
sys.path.insert(0, ROOT)

META = {
 "C01": dict(
   technique="Hypothesis-driven grammar-based generation of domain ASTs + outside-form injection; read-back through public attributes compared with the source AST structurally and under a reference interpreter",
   text="Generated fragment-F domains (and the same with one outside form injected) are rendered with generated layout/case/comments, parsed by the library and read back through public attributes; vocabulary and every action must equal the source (canonical structure, else behaviour on calls x states); outside forms must be faithful or raise at parse / first grounding / first evaluation.",
   note="Trusts the reference model (unit-tested at start-up) and the read-back walker (public attributes). Known finding K2 (lifted function term with repeated parameter) judged against a defect model.",
   design="6/C01"),
 "C02": dict(
   technique="bounded-exhaustive truth-table sweep + Hypothesis generation against an independent reference evaluator (exact rationals)",
   text="is_applicable of operators built from generated domains is compared with the reference truth value of the source precondition for generated (call, state) pairs, and exhaustively for every formula of a bounded family x every call x every assignment of the mentioned atoms x 3 valuations.",
   note="Trusts the reference evaluator. Known finding K3 (nested and/or/forall groups treated as true) is judged against a defect model: a deviation is excused only if the library equals the model exactly.",
   design="6/C02"),
 "C03": dict(
   technique="Hypothesis generation + harness-owned permutations of effect collections against a reference successor function",
   text="Operator.apply on generated (domain, call, state) cases whose firing effects are consistent; the serialized result is read by an independent reader and must equal the reference successor under the natural order and under drawn permutations of lifted/grounded effect sets and of the object table.",
   note="Trusts the reference successor. K3 through 'when' conditions judged against the defect model.",
   design="6/C03"),
 "C11": dict(
   technique="bounded-exhaustive enumeration + Hypothesis generation against an independent reference reader (differential), atheris campaign in thorough",
   text="Differential test of PDDLTokenizer against a 40-line character-level reference reader: every token tree up to a node bound under every single-separator substitution and every single parenthesis deletion/insertion (exhaustive), plus generated larger trees/layouts/cases; both string and file input.",
   note="Trusts the reference reader (unit-tested at start-up). ASCII only; blanks = space, tab, CR, LF. One known finding (trailing text accepted) is judged against a defect model.",
   design="6/C11"),
 "C20": dict(
   technique="Hypothesis generation; oracle = positional substitution on the source AST, compared as sets both ways",
   text="For generated actions and type-correct calls (repeated objects, constants, subtype objects) the grounded precondition literals / numeric conditions, per-group add/delete/numeric effects, typed literal text and typed action call reported by the library must equal the source with parameters replaced positionally.",
   note="Literals inside forall groups are not compared. Known findings K3 (nested literals omitted) and K2 (function term with repeated object printed with one argument) judged against defect models.",
   design="6/C20"),
}

def main():
    props = [json.loads(l) for l in open(os.path.join(ROOT, "properties.jsonl"))]
    checks, na = [], []
    for p in props:
        pid = p["id"]
        if pid in META and os.path.exists(os.path.join(ROOT, "pv", "props", pid.lower() + ".py")):
            m = META[pid]
            checks.append({
                "property_id": pid,
                "quick_cmd": f"./check {pid} quick",
                "thorough_cmd": f"./check {pid} thorough",
                "evidence_file": f"/verif/evidence/{pid}.json",
                "replay_cmd_template": f"./check {pid} quick --replay {{path}}",
                "engine": "pv",
                "level_claimed": {"category": "exploration", "text": m["text"], "design_ref": m["design"]},
                "level_note": m["note"],
                "technique": m["technique"],
            })
        else:
            na.append({"property_id": pid, "reason": "check not built yet (build in progress; see DESIGN.md section 9)"})
    man = {
        "version": 1,
        "setup_cmd": "./setup.sh",
        "hooks": {"guard": "PDDL_PLUS_PARSER_VERIF", "enable": "no source hooks: checks import the working tree of /repo directly (PYTHONPATH) in a fresh process; the guard variable is exported by ./check but nothing in the repository reads it",
                  "baseline_off_cmd": "cd /repo && /venv/bin/python -m pytest -ra -q -p no:cacheprovider --timeout=900 --continue-on-collection-errors",
                  "source_commits": [], "add_only": True},
        "engines": [{"name": "pv", "path": "/verif/pv", "serves_properties": [c["property_id"] for c in checks],
                     "kind_free_text": "Hypothesis 6.168 strategies + bounded-exhaustive enumeration (multiprocessing) + atheris targets, against an independent reference PDDL reader/interpreter with exact rational arithmetic"}],
        "checks": checks,
        "not_applicable": na,
        "notes": "Every check: exit 0 held / exit 1 with VIOLATION lines / exit 2 harness error. KNOWN_FINDINGS.txt lists recorded defects (KNOWN-FINDING lines) and fixed ones.",
    }
    with open(os.path.join(ROOT, "MANIFEST.json"), "w") as fh:
        json.dump(man, fh, indent=1)
    try:
        sys.path.insert(0, os.path.join(ROOT, ".deps"))
        import jsonschema
        jsonschema.validate(man, json.load(open("/root/.vp/MANIFEST.schema.json")))
        es = json.load(open("/root/.vp/EVIDENCE.schema.json"))
        for c in checks:
            f = c["evidence_file"]
            if os.path.exists(f):
                jsonschema.validate(json.load(open(f)), es)
        print("manifest + evidence validate;", len(checks), "checks,", len(na), "not_applicable")
    except ImportError:
        print("jsonschema missing; not validated")

main()
