#!/venv/bin/python
"""Prints the markdown table of seeded changes (seeded/*/meta.json) for DESIGN.md section 9.
usage: tools/seedtable.py [name-filter-regex]"""
import glob
import json
import os
import re
import sys

HERE = os.path.dirname(os.path.dirname(os.path.abspath(__file__)))


def main():
    pat = re.compile(sys.argv[1]) if len(sys.argv) > 1 else None
    rows = []
    for p in sorted(glob.glob(os.path.join(HERE, "seeded", "*", "meta.json"))):
        m = json.load(open(p))
        if pat and not pat.search(m["name"]):
            continue
        outs = []
        for cid, r in sorted(m.get("checks_quick", {}).items()):
            b = [x.split("/", 1)[1] if x.startswith(cid + "/") else x for x in r.get("buckets", [])][:2]
            outs.append(f"{cid} exit {r['exit']}" + (": " + ", ".join(b) if b else ""))
        rows.append((m["property"], m["name"], m.get("needs", ""), "; ".join(outs)))
    print("| seeded change | property | needs | quick check |")
    print("|---|---|---|---|")
    for prop, name, needs, out in sorted(rows):
        print(f"| `{name}` | {prop} | {needs} | {out} |")


if __name__ == "__main__":
    main()
