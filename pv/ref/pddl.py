"""Reference PDDL model: plain-data domain/problem specs, text rendering, and an interpreter with
exact rational arithmetic.  Independent of the library under test.

Domain spec (JSON-able):
  {"name": str, "typed": bool,
   "types": [[child, parent], ...],             # logical tree, parent 'object' for roots
   "type_decl": [[[children...], parent|None], ...] | None,   # how :types is written (default: derived)
   "constants": [[name, type], ...],
   "predicates": [[name, [[?p, type], ...]], ...],
   "functions":  [[name, [[?p, type], ...]], ...],
   "actions": [{"name": str, "params": [[?p, type], ...], "pre": sexpr|None, "eff": sexpr,
                "group_params": bool}],
   "requirements": [...]}
Formulas are S-expressions (nested lists of tokens) in PDDL syntax; numbers are decimal strings.
State: (frozenset of atom tuples, dict fluent tuple -> Fraction).
"""
from fractions import Fraction
import itertools

NUM_OPS = ("+", "-", "*", "/")
CMP_OPS = ("<", "<=", ">", ">=", "=")
ASSIGN_OPS = ("assign", "increase", "decrease")


class Undefined(Exception):
    """PDDL leaves the case undefined (unset fluent, division by zero)."""


class Conflict(Exception):
    """Simultaneously firing effects are inconsistent (outside the property's quantifier)."""


class Ambiguous(Exception):
    """A comparison sits too close to its decision boundary to be judged through floats."""


# ---- types ------------------------------------------------------------------------------------

class Types:
    def __init__(self, pairs):
        self.parent = {"object": None}
        for c, p in pairs:
            self.parent[c] = p
        for c, p in list(self.parent.items()):
            if p is not None and p not in self.parent:
                self.parent[p] = "object"

    def names(self):
        return list(self.parent)

    def is_sub(self, a, b):
        seen = set()
        while a is not None and a not in seen:
            if a == b:
                return True
            seen.add(a)
            a = self.parent.get(a)
        return False

    def ancestors(self, a):
        out = []
        while a is not None:
            out.append(a)
            a = self.parent.get(a)
        return out

    def depth(self, a):
        return len(self.ancestors(a)) - 1


class World:
    """Types + all objects (problem objects and domain constants)."""

    def __init__(self, dom, objects):
        self.dom = dom
        self.types = Types(dom.get("types", []))
        self.objects = {}
        for n, t in objects:
            self.objects[n] = t
        for n, t in dom.get("constants", []):
            self.objects[n] = t
        self.preds = {n: [t for _, t in sig] for n, sig in dom["predicates"]}
        self.funcs = {n: [t for _, t in sig] for n, sig in dom.get("functions", [])}

    def of_type(self, t):
        return [o for o, ot in self.objects.items() if self.types.is_sub(ot, t)]

    def ground_atoms(self):
        out = []
        for name, sig in self.preds.items():
            for args in itertools.product(*[self.of_type(t) for t in sig]):
                out.append((name,) + args)
        return out

    def ground_fluents(self):
        out = []
        for name, sig in self.funcs.items():
            for args in itertools.product(*[self.of_type(t) for t in sig]):
                out.append((name,) + args)
        return out

    def calls(self, action):
        return list(itertools.product(*[self.of_type(t) for _, t in action["params"]]))


# ---- rendering ----------------------------------------------------------------------------------

def typed_list(pairs, typed=True, group=False, bare_tail=False):
    """[[name, type], ...] -> token list."""
    out = []
    if not typed:
        return [n for n, _ in pairs]
    if bare_tail:
        k = len(pairs)
        while k > 0 and pairs[k - 1][1] == "object":
            k -= 1
        return typed_list(pairs[:k], typed, group) + [n for n, _ in pairs[k:]]
    if group:
        i = 0
        while i < len(pairs):
            j = i
            while j + 1 < len(pairs) and pairs[j + 1][1] == pairs[i][1]:
                j += 1
            out += [n for n, _ in pairs[i:j + 1]] + ["-", pairs[i][1]]
            i = j + 1
        return out
    for n, t in pairs:
        out += [n, "-", t]
    return out


def default_type_decl(pairs):
    groups = {}
    order = []
    for c, p in pairs:
        if p not in groups:
            groups[p] = []
            order.append(p)
        groups[p].append(c)
    return [[groups[p], p] for p in order]


def domain_tree(dom):
    typed = dom.get("typed", True)
    bt = bool(dom.get("bare_tail"))
    t = ["define", ["domain", dom["name"]]]
    reqs = dom.get("requirements")
    if reqs is None:
        reqs = [":strips"] + ([":typing"] if typed else [])
    if reqs:
        t.append([":requirements"] + list(reqs))
    if typed and (dom.get("types") or dom.get("type_decl")):
        decl = dom.get("type_decl") or default_type_decl(dom["types"])
        toks = [":types"]
        for children, parent in decl:
            toks += list(children)
            if parent is not None:
                toks += ["-", parent]
        t.append(toks)
    if dom.get("constants"):
        t.append([":constants"] + typed_list(dom["constants"], typed, dom.get("group_constants", False), bt))
    t.append([":predicates"] + [[n] + typed_list(sig, typed, dom.get("group_sig", False), bt) for n, sig in dom["predicates"]])
    if dom.get("functions"):
        # the library requires 'name - type' triples for every function parameter
        t.append([":functions"] + [[n] + typed_list(sig, True) for n, sig in dom["functions"]])
    for a in dom["actions"]:
        node = [":action", a["name"], ":parameters", typed_list(a["params"], typed, a.get("group_params", False), bt)]
        node += [":precondition", a["pre"] if a.get("pre") is not None else []]
        node += [":effect", a["eff"]]
        t.append(node)
    return t


def fmt_value(v):
    """Fraction -> decimal string (exact when the denominator divides a power of ten)."""
    if isinstance(v, str):
        return v
    v = Fraction(v)
    if v.denominator == 1:
        return str(v.numerator)
    f = float(v)
    return repr(f)


def problem_tree(name, dom_name, objects, state, goal=None, typed=True, group_objects=False):
    facts, fluents = state
    t = ["define", ["problem", name], [":domain", dom_name]]
    t.append([":objects"] + typed_list([list(o) for o in objects], typed, group_objects))
    init = [":init"] + [list(a) for a in sorted(facts)]
    init += [["=", list(k), fmt_value(v)] for k, v in sorted(fluents.items())]
    t.append(init)
    t.append([":goal", goal if goal is not None else ["and"]])
    return t


# ---- semantics ----------------------------------------------------------------------------------

DEFAULT_EPS = Fraction(1, 10000)
MARGIN = Fraction(1, 10 ** 7)


def is_number(tok):
    if not isinstance(tok, str):
        return False
    try:
        Fraction(tok)
        return True
    except (ValueError, ZeroDivisionError):
        try:
            float(tok)
            return True
        except ValueError:
            return False


def num(tok):
    try:
        return Fraction(tok)
    except ValueError:
        return Fraction(float(tok))


def ev(e, env, st):
    if isinstance(e, str):
        return num(e)
    if e[0] in NUM_OPS and len(e) != 3 and all(isinstance(x, list) or is_number(x) for x in e[1:]) and len(e) >= 2 \
            and not (len(e) == 2 and e[0] != "-"):
        # PDDL 2.1 extras outside the library's fragment: unary minus, n-ary + and *
        vals = [ev(x, env, st) for x in e[1:]]
        if len(vals) == 1:
            return -vals[0]
        if e[0] in ("+", "*"):
            acc = vals[0]
            for v in vals[1:]:
                acc = acc + v if e[0] == "+" else acc * v
            return acc
        raise Undefined("n-ary - or /")
    if e[0] in NUM_OPS and len(e) == 3:
        a, b = ev(e[1], env, st), ev(e[2], env, st)
        if e[0] == "+":
            return a + b
        if e[0] == "-":
            return a - b
        if e[0] == "*":
            return a * b
        if b == 0:
            raise Undefined("division by zero")
        return a / b
    key = (e[0],) + tuple(env.get(t, t) for t in e[1:])
    if key not in st[1]:
        raise Undefined(f"fluent {key} undefined")
    return st[1][key]


def ev_mag(e, env, st):
    """(value, largest absolute value of any sub-expression): floats carry about 16 digits, so a result that is
    many orders of magnitude smaller than something computed on the way (cancellation) is not reproducible in
    floating point and cannot be judged against the exact value."""
    if isinstance(e, str) or not (e[0] in NUM_OPS and len(e) == 3):
        v = ev(e, env, st)
        return v, abs(v)
    (a, ma), (b, mb) = ev_mag(e[1], env, st), ev_mag(e[2], env, st)
    if e[0] == "+":
        v = a + b
    elif e[0] == "-":
        v = a - b
    elif e[0] == "*":
        v = a * b
    else:
        if b == 0:
            raise Undefined("division by zero")
        v = a / b
    return v, max(ma, mb, abs(v))


def float_unsafe(value, mag, other=0):
    """True when the exact value (or the gap to `other`) is too small, compared with the intermediate results, to
    survive double precision."""
    return mag > 10 ** 5 * max(1, abs(value)) or (mag > 10 ** 9 and mag > 10 ** 11 * abs(value - other) > 0)


def compare(op, a, b, eps=DEFAULT_EPS, strict_boundary=False):
    """Property C12: = <= >= hold within the tolerance, < and > are strict."""
    d = abs(a - b)
    scale = max(1, abs(a), abs(b))
    if not strict_boundary:
        if op in ("<", ">"):
            if d != 0 and d < MARGIN * scale:
                raise Ambiguous()
        else:
            if abs(d - eps) < MARGIN * scale:
                raise Ambiguous()
    close = d <= eps
    return {"<": a < b, ">": a > b, "<=": close or a < b, ">=": close or a > b, "=": close}[op]


def is_term(x):
    return isinstance(x, str) and not is_number(x)


def holds(c, env, st, world, eps=DEFAULT_EPS):
    if not c:
        return True
    h = c[0]
    if h == "and":   # no short circuit: an undefined sub-term makes the whole case undefined
        return all([holds(x, env, st, world, eps) for x in c[1:]])
    if h == "or":
        return any([holds(x, env, st, world, eps) for x in c[1:]])
    if h == "not":
        return not holds(c[1], env, st, world, eps)
    if h == "imply":
        a, b = holds(c[1], env, st, world, eps), holds(c[2], env, st, world, eps)
        return (not a) or b
    if h in ("forall", "exists"):
        vars_ = parse_typed_vars(c[1])
        combos = itertools.product(*[world.of_type(t) for _, t in vars_])
        results = [holds(c[2], {**env, **{v: o for (v, _), o in zip(vars_, combo)}}, st, world, eps) for combo in combos]
        return all(results) if h == "forall" else any(results)
    if h == "=" and len(c) == 3 and isinstance(c[1], str) and isinstance(c[2], str) \
            and not is_number(c[1]) and not is_number(c[2]):
        return env.get(c[1], c[1]) == env.get(c[2], c[2])
    if h in CMP_OPS:
        (a, ma), (b, mb) = ev_mag(c[1], env, st), ev_mag(c[2], env, st)
        if max(ma, mb) > 10 ** 9 and 0 < abs(a - b) * 10 ** 11 < max(ma, mb):
            raise Ambiguous()      # the decision hangs on digits that cancellation destroys in floating point
        return compare(h, a, b, eps)
    return (h,) + tuple(env.get(t, t) for t in c[1:]) in st[0]


def parse_typed_vars(lst):
    out, group = [], []
    i = 0
    while i < len(lst):
        if lst[i] == "-":
            for g in group:
                out.append((g, lst[i + 1]))
            group = []
            i += 2
        else:
            group.append(lst[i])
            i += 1
    for g in group:
        out.append((g, "object"))
    return out


def fired_effects(eff, env, st, world, eps=DEFAULT_EPS):
    """List of (group_id, kind, payload) for every primitive effect that fires.  A group is one
    syntactic effect group under one binding of its quantified variables."""
    out = []

    def collect(e, env, grp):
        if not e:
            return
        h = e[0]
        if h == "and":
            for x in e[1:]:
                collect(x, env, grp)
        elif h == "when":
            if holds(e[1], env, st, world, eps):
                collect(e[2], env, grp + (id(e), tuple(sorted(env.items()))))
        elif h == "forall":
            vars_ = parse_typed_vars(e[1])
            for combo in itertools.product(*[world.of_type(t) for _, t in vars_]):
                collect(e[2], {**env, **{v: o for (v, _), o in zip(vars_, combo)}}, grp)
        elif h == "not":
            out.append((grp, "del", (e[1][0],) + tuple(env.get(t, t) for t in e[1][1:])))
        elif h in ASSIGN_OPS or h in ("scale-up", "scale-down"):
            key = (e[1][0],) + tuple(env.get(t, t) for t in e[1][1:])
            out.append((grp, h, (key, ev(e[2], env, st))))
        else:
            out.append((grp, "add", (h,) + tuple(env.get(t, t) for t in e[1:])))

    collect(eff, env, ())
    return out


def cancellation_in_effects(eff, env, st, world, eps=DEFAULT_EPS):
    """True when some fluent written by the firing effects ends up many orders of magnitude below what was
    computed on the way (right-hand sides, the old value, the partial sums): not reproducible in floats."""
    sums = {}
    for g, k, p in fired_effects(eff, env, st, world, eps):
        if k in ("add", "del"):
            continue
        key, _ = p
        sums.setdefault(key, []).append((g, k))
    if not sums:
        return False
    mags = {}

    def collect(e, env):
        if not e:
            return
        h = e[0]
        if h == "and":
            for x in e[1:]:
                collect(x, env)
        elif h == "when":
            if holds(e[1], env, st, world, eps):
                collect(e[2], env)
        elif h == "forall":
            vars_ = parse_typed_vars(e[1])
            for combo in itertools.product(*[world.of_type(t) for _, t in vars_]):
                collect(e[2], {**env, **{v: o for (v, _), o in zip(vars_, combo)}})
        elif h in ASSIGN_OPS:
            key = (e[1][0],) + tuple(env.get(t, t) for t in e[1][1:])
            _, m = ev_mag(e[2], env, st)
            mags[key] = max(mags.get(key, 0), m, abs(st[1].get(key, 0)))
    collect(eff, env)
    final = successor(eff, env, st, world, eps)[1]
    return any(m > 10 ** 5 * max(1, abs(final.get(key, 0))) for key, m in mags.items())


def successor(eff, env, st, world, eps=DEFAULT_EPS):
    fired = fired_effects(eff, env, st, world, eps)
    adds = [(g, p) for g, k, p in fired if k == "add"]
    dels = [(g, p) for g, k, p in fired if k == "del"]
    for ga, a in adds:
        for gd, d in dels:
            if a == d and ga != gd:
                raise Conflict(f"{a} added and deleted by different effect groups")
    facts = (set(st[0]) - {d for _, d in dels}) | {a for _, a in adds}
    fl = dict(st[1])
    writes = {}
    for g, k, p in fired:
        if k in ("add", "del"):
            continue
        key, v = p
        writes.setdefault(key, []).append((k, v))
    for key, ops in writes.items():
        kinds = {k for k, _ in ops}
        if len(ops) > 1 and (kinds - {"increase", "decrease"}):
            # PDDL 2.1: only additive effects on one fluent commute; anything else written twice is inconsistent
            raise Conflict(f"fluent {key} written twice (not only by increase/decrease)")
        if "assign" in kinds:
            fl[key] = ops[0][1]
            continue
        if key not in st[1]:
            raise Undefined(f"fluent {key} undefined")
        old = st[1][key]
        if kinds <= {"increase", "decrease"}:
            fl[key] = old + sum((v if k == "increase" else -v) for k, v in ops)
        elif kinds == {"scale-up"}:
            fl[key] = old * ops[0][1]
        else:
            if ops[0][1] == 0:
                raise Undefined("scale-down by zero")
            fl[key] = old / ops[0][1]
    return frozenset(facts), fl


def substitute(x, env):
    if isinstance(x, str):
        return env.get(x, x)
    return [substitute(y, env) for y in x]


def find_action(dom, name):
    for a in dom["actions"]:
        if a["name"] == name:
            return a
    raise KeyError(name)


def applicable(dom, world, call, st, eps=DEFAULT_EPS):
    a = find_action(dom, call[0])
    env = {p: o for (p, _), o in zip(a["params"], call[1:])}
    return holds(a.get("pre") or [], env, st, world, eps)


def apply(dom, world, call, st, eps=DEFAULT_EPS):
    a = find_action(dom, call[0])
    env = {p: o for (p, _), o in zip(a["params"], call[1:])}
    return successor(a["eff"], env, st, world, eps)


def beyond_float(st, limit=10 ** 9, bits=4096):
    """A state the exact reference should stop at: a value beyond the magnitude where floats still resolve
    the tolerances, or a rational whose size doubles with every step (x += 1/x): exact, but exponentially costly."""
    return any(abs(v) > limit or v.denominator.bit_length() > bits for v in st[1].values())


def states_equal(s1, s2, tol=Fraction(1, 10 ** 9)):
    if frozenset(s1[0]) != frozenset(s2[0]):
        return False
    if set(s1[1]) != set(s2[1]):
        return False
    for k, v in s1[1].items():
        w = s2[1][k]
        if abs(Fraction(v) - Fraction(w)) > tol * max(1, abs(Fraction(v))):
            return False
    return True


def state_diff(exp, got):
    d = {}
    ef, gf = set(exp[0]), set(got[0])
    if ef - gf:
        d["missing_facts"] = sorted(ef - gf)
    if gf - ef:
        d["extra_facts"] = sorted(gf - ef)
    bad = {}
    for k in set(exp[1]) | set(got[1]):
        a, b = exp[1].get(k), got[1].get(k)
        if a is None or b is None or abs(Fraction(a) - Fraction(b)) > Fraction(1, 10 ** 9) * max(1, abs(Fraction(a))):
            bad[" ".join(k)] = (None if a is None else float(a), None if b is None else float(b))
    if bad:
        d["fluents(expected,got)"] = bad
    return d


# ---- formula walkers --------------------------------------------------------------------------

def walk(f):
    """All sub-lists of a formula, pre-order."""
    if isinstance(f, list):
        yield f
        for x in f:
            yield from walk(x)


def heads(f):
    return {x[0] for x in walk(f) if x and isinstance(x[0], str)}


# ---- well-formedness (keeps reduced / generated cases inside the fragment) -----------------------

class Invalid(Exception):
    pass


def _chk(cond, msg):
    if not cond:
        raise Invalid(msg)


def validate_domain(dom, objects=None, strict_types=True):
    types = Types(dom.get("types", []))
    tn = set(types.names())
    preds = {n: sig for n, sig in dom["predicates"]}
    funcs = {n: sig for n, sig in dom.get("functions", [])}
    consts = dict((n, t) for n, t in dom.get("constants", []))
    _chk(len(preds) == len(dom["predicates"]) and len(funcs) == len(dom.get("functions", [])), "duplicate names")
    _chk(not (set(preds) & set(funcs)), "predicate and function share a name")
    for n, sig in list(preds.items()) + list(funcs.items()):
        _chk(len({p for p, _ in sig}) == len(sig), "duplicate parameter name")
        for p, t in sig:
            _chk(p.startswith("?") and t in tn, f"bad signature {n}")
    for n, t in list(consts.items()) + [tuple(o) for o in (objects or [])]:
        _chk(t in tn, f"unknown type {t}")
    names = set()
    for a in dom["actions"]:
        _chk(a["name"] not in names, "duplicate action")
        names.add(a["name"])
        _chk(len({p for p, _ in a["params"]}) == len(a["params"]), "duplicate action parameter")
        scope = {}
        for p, t in a["params"]:
            _chk(p.startswith("?") and t in tn, "bad action parameter")
            scope[p] = t

        def term_ok(x, scope, want):
            _chk(isinstance(x, str), "term must be a token")
            t = scope.get(x) if x in scope else consts.get(x)
            _chk(t is not None, f"unknown term {x}")
            if strict_types:
                _chk(types.is_sub(t, want), f"term {x}:{t} not a {want}")

        def atom_ok(x, scope):
            _chk(isinstance(x, list) and x and isinstance(x[0], str) and x[0] in preds, f"bad atom {x}")
            sig = preds[x[0]]
            _chk(len(x) - 1 == len(sig), f"arity {x}")
            for arg, (_, t) in zip(x[1:], sig):
                term_ok(arg, scope, t)

        def fterm_ok(x, scope):
            _chk(isinstance(x, list) and x and isinstance(x[0], str) and x[0] in funcs, f"bad function term {x}")
            sig = funcs[x[0]]
            _chk(len(x) - 1 == len(sig), f"arity {x}")
            for arg, (_, t) in zip(x[1:], sig):
                term_ok(arg, scope, t)

        def expr_ok(x, scope):
            if isinstance(x, str):
                _chk(is_number(x), f"bad number {x}")
                return
            _chk(isinstance(x, list) and x, "bad expression")
            if x[0] in NUM_OPS:
                _chk(len(x) == 3, "arithmetic must be binary")
                expr_ok(x[1], scope)
                expr_ok(x[2], scope)
            else:
                fterm_ok(x, scope)

        def cond_ok(c, scope, top=False):
            _chk(isinstance(c, list), "condition must be a list")
            if not c:
                _chk(top, "empty condition")
                return
            h = c[0]
            _chk(isinstance(h, str), "bad head")
            if h in ("and", "or"):
                _chk(h == "and" or len(c) > 1, "empty disjunction")
                for x in c[1:]:
                    cond_ok(x, scope)
            elif h == "not":
                _chk(len(c) == 2 and isinstance(c[1], list) and c[1], "bad not")
                if c[1][0] == "=":
                    _chk(len(c[1]) == 3 and all(isinstance(t, str) and t in scope for t in c[1][1:]), "bad inequality")
                else:
                    atom_ok(c[1], scope)
            elif h == "forall":
                _chk(len(c) == 3 and isinstance(c[1], list) and len(c[1]) == 3 and c[1][1] == "-", "bad forall")
                v, _, qt = c[1]
                _chk(isinstance(v, str) and v.startswith("?") and v not in scope and qt in tn, "bad quantifier")
                _chk(isinstance(c[2], list) and c[2] and c[2][0] in ("and", "or") and len(c[2]) > 1, "bad forall body")
                cond_ok(c[2], {**scope, v: qt})
            elif h == "=" and len(c) == 3 and isinstance(c[1], str) and not is_number(c[1]):
                _chk(isinstance(c[2], str) and c[1] in scope and c[2] in scope, "bad equality")
            elif h in CMP_OPS:
                _chk(len(c) == 3, "bad comparison")
                expr_ok(c[1], scope)
                expr_ok(c[2], scope)
            else:
                atom_ok(c, scope)

        def simple_eff_ok(e, scope):
            _chk(isinstance(e, list) and e and isinstance(e[0], str), "bad effect")
            if e[0] == "not":
                _chk(len(e) == 2, "bad delete")
                atom_ok(e[1], scope)
            elif e[0] in ASSIGN_OPS:
                _chk(len(e) == 3, "bad assignment")
                fterm_ok(e[1], scope)
                expr_ok(e[2], scope)
            else:
                atom_ok(e, scope)

        def when_ok(e, scope):
            _chk(len(e) == 3 and isinstance(e[1], list) and e[1], "bad when")
            cond_ok(e[1], scope)
            body = e[2]
            _chk(isinstance(body, list) and body, "bad when body")
            if body[0] == "and":
                _chk(len(body) > 1, "empty when body")
                for x in body[1:]:
                    simple_eff_ok(x, scope)
            else:
                simple_eff_ok(body, scope)

        def eff_ok(e, scope):
            _chk(isinstance(e, list) and e and e[0] == "and", "effect must be a conjunction")
            for x in e[1:]:
                _chk(isinstance(x, list) and x, "bad effect item")
                if x[0] == "when":
                    when_ok(x, scope)
                elif x[0] == "forall":
                    _chk(len(x) == 3 and isinstance(x[1], list) and len(x[1]) == 3 and x[1][1] == "-", "bad forall effect")
                    v, _, qt = x[1]
                    # (a quantified variable may re-use a parameter's name: it shadows the parameter inside the effect)
                    _chk(isinstance(v, str) and v.startswith("?") and qt in tn, "bad quantifier")
                    _chk(isinstance(x[2], list) and x[2] and x[2][0] == "when", "forall effect body must be a when")
                    when_ok(x[2], {**scope, v: qt})
                else:
                    simple_eff_ok(x, scope)

        pre = a.get("pre")
        if pre:
            _chk(pre[0] == "and", "precondition must be a conjunction")
            cond_ok(pre, scope, top=True)
        eff_ok(a["eff"], scope)


def validate_probes(dom, objects, probes, partial=False):
    w = World(dom, objects)
    _chk(len({n for n, _ in objects}) == len(objects), "duplicate object")
    _chk(not ({n for n, _ in objects} & {n for n, _ in dom.get("constants", [])}), "object named like a constant")
    atoms, fls = set(w.ground_atoms()), set(w.ground_fluents())
    for pr in probes:
        a = find_action(dom, pr["action"])
        _chk(len(pr["args"]) == len(a["params"]), "call arity")
        for o, (_, t) in zip(pr["args"], a["params"]):
            _chk(o in w.objects and w.types.is_sub(w.objects[o], t), "call argument type")
        for f in pr["state"]["facts"]:
            _chk(tuple(f) in atoms, f"state fact {f}")
        keys = {tuple(k) for k, _ in pr["state"]["fluents"]}
        _chk((keys <= fls if partial else keys == fls) and len(keys) == len(pr["state"]["fluents"]),
             "state must define every ground fluent exactly once" if not partial else "state defines an unknown fluent or one twice")
    return w
