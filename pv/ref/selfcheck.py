"""Unit tests of the reference kit itself (hand-computed examples).  Run at the start of every
check: a reference that disagrees with its own tests makes the check exit 2 instead of
reporting violations."""
from pv.ref import sexpr


def _sexpr():
    assert sexpr.read("(a (b c) d)") == ["a", ["b", "c"], "d"]
    assert sexpr.read("(A\t(B ;x (y\n c)\r\n D)  ; end") == ["a", ["b", "c"], "d"]
    assert sexpr.read("()") == []
    assert sexpr.read("(()(a))") == [[], ["a"]]
    for bad in ["", "a", "(a", "(a))", "(a) b", "(a) (b)", ")(", "; (a)"]:
        try:
            sexpr.read(bad)
        except sexpr.Reject:
            continue
        raise AssertionError(f"reference reader accepted {bad!r}")
    t = ["define", ["domain", "d"], [":types", "a", "-", "object"], []]
    for cm in range(4):
        lay = sexpr.Layout([3, 1, 4, 1, 5, 9, 2, 6, 5, 3, 5, 8, 9, 7, 9, 3, 2, 3, 8, 4], cm)
        assert sexpr.read(sexpr.render(t, lay)) == t
    assert sexpr.read_many("(a) (b c)") == [["a"], ["b", "c"]]


def run():
    _sexpr()
    try:
        from pv.ref import selfcheck_sem
    except ImportError:
        return
    selfcheck_sem.run()
