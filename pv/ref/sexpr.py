"""Reference S-expression reader and renderer (independent of the library).

Grammar: text = blank* form blank*;  form = '(' (blank* (form|token))* blank* ')';
token = maximal run of characters other than blanks, parentheses and ';', lower-cased;
blank = space | tab | CR | LF | ';' ... end of line.
"""

BLANKS = " \t\r\n"


class Reject(Exception):
    pass


def tokenize(text, lower=True):
    toks = []
    i, n = 0, len(text)
    while i < n:
        ch = text[i]
        if ch in BLANKS:
            i += 1
        elif ch == ";":
            while i < n and text[i] != "\n":
                i += 1
        elif ch in "()":
            toks.append(ch)
            i += 1
        else:
            j = i
            while j < n and text[j] not in BLANKS and text[j] not in "();":
                j += 1
            toks.append(text[i:j].lower() if lower else text[i:j])
            i = j
    return toks


def read(text, lower=True):
    """Exactly one top-level parenthesised form, else Reject."""
    toks = tokenize(text, lower)
    if not toks:
        raise Reject("empty")
    if toks[0] != "(":
        raise Reject("does not start with (")
    stack = []
    cur = None
    done = None
    for k, t in enumerate(toks):
        if done is not None:
            raise Reject("text after the top-level form")
        if t == "(":
            new = []
            if cur is not None:
                cur.append(new)
                stack.append(cur)
            cur = new
        elif t == ")":
            if cur is None:
                raise Reject("unbalanced )")
            if stack:
                cur = stack.pop()
            else:
                done = cur
                cur = None
        else:
            if cur is None:
                raise Reject("token outside form")
            cur.append(t)
    if done is None:
        raise Reject("unbalanced (")
    return done


def read_many(text):
    """Zero or more top-level forms."""
    toks = tokenize(text)
    out, stack, cur = [], [], None
    for t in toks:
        if t == "(":
            new = []
            if cur is not None:
                cur.append(new)
                stack.append(cur)
            cur = new
        elif t == ")":
            if cur is None:
                raise Reject("unbalanced )")
            if stack:
                cur = stack.pop()
            else:
                out.append(cur)
                cur = None
        else:
            if cur is None:
                raise Reject("token outside form")
            cur.append(t)
    if cur is not None:
        raise Reject("unbalanced (")
    return out


def flat(x):
    """Canonical one-line rendering."""
    if isinstance(x, str):
        return x
    return "(" + " ".join(flat(y) for y in x) + ")"


def to_tuple(x):
    return x if isinstance(x, str) else tuple(to_tuple(y) for y in x)


def to_list(x):
    return x if isinstance(x, str) else [to_list(y) for y in x]


# ---- layout-perturbing renderer -------------------------------------------------------------
SEPS = [" ", "\n", "\t", "  ", "\r\n", " \t ", "\n\n", " ; a comment (with parens) ; and more\n",
        "\n;; full line comment\n", "\n\t; (and (not x))\n\t", " ;\n",
        ";glued to the token before (it) ;twice\n", ";\n"]
OPTIONAL_GAP = ["", " ", "\n", "\t", " ;c\n"]


class Layout:
    """A layout is a list of small integers consumed in order (plain data => replayable)."""

    def __init__(self, choices=None, case_mode=0):
        self.choices = list(choices or [])
        self.pos = 0
        self.case_mode = case_mode   # 0 as is, 1 upper, 2 alternate caps per token

    def next(self, n):
        if self.pos < len(self.choices):
            v = self.choices[self.pos] % n
        else:
            v = 0
        self.pos += 1
        return v


def render(tree, layout: Layout = None, mandatory=SEPS, optional=OPTIONAL_GAP):
    """Render a token tree.  Between two tokens a mandatory separator; next to a parenthesis an
    optional one.  layout=None gives the canonical single-space form."""
    if layout is None:
        return flat(tree)
    out = []
    ntok = [0]

    def tok(t):
        ntok[0] += 1
        if not t.isascii():       # upper-casing is not invertible outside ASCII (\u00df -> SS): left as written
            return t
        if layout.case_mode == 1:
            return t.upper()
        if layout.case_mode == 2:
            return t.upper() if ntok[0] % 2 else t
        if layout.case_mode == 3:
            return "".join(c.upper() if i % 2 else c for i, c in enumerate(t))
        return t

    def emit(x):
        if isinstance(x, str):
            out.append(tok(x))
            return
        out.append("(")
        prev_tok = False
        first = True
        for y in x:
            if isinstance(y, str):
                if prev_tok:
                    out.append(mandatory[layout.next(len(mandatory))])
                else:
                    out.append(optional[layout.next(len(optional))])
                emit(y)
                prev_tok = True
            else:
                out.append(optional[layout.next(len(optional))])
                emit(y)
                prev_tok = False
            first = False
        out.append(optional[layout.next(len(optional))])
        out.append(")")

    out.append(optional[layout.next(len(optional))])
    emit(tree)
    out.append(optional[layout.next(len(optional))])
    return "".join(out)
