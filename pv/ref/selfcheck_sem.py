"""Hand-computed PDDL examples for the reference interpreter."""
from fractions import Fraction as F

from pv.ref import pddl


def run():
    dom = {"name": "d", "typed": True, "types": [["t", "object"], ["s", "t"], ["u", "object"]],
           "constants": [["k", "s"]],
           "predicates": [["p", [["?a", "t"]]], ["q", [["?a", "t"], ["?b", "t"]]], ["r", []]],
           "functions": [["f", [["?a", "t"]]], ["g", []]], "actions": []}
    w = pddl.World(dom, [["a", "t"], ["b", "s"], ["e", "u"]])
    T = w.types
    assert T.is_sub("s", "t") and T.is_sub("s", "object") and not T.is_sub("t", "s") and T.is_sub("u", "u")
    assert not T.is_sub("u", "t")
    assert sorted(w.of_type("t")) == ["a", "b", "k"] and sorted(w.of_type("s")) == ["b", "k"]
    st = (frozenset({("p", "a"), ("q", "a", "b"), ("r",)}),
          {("f", "a"): F(1), ("f", "b"): F(3, 2), ("f", "k"): F(0), ("g",): F(2)})
    env = {"?x": "a", "?y": "b"}
    H = lambda c: pddl.holds(c, env, st, w)
    assert H(["and"]) and H([]) and not H(["or"])
    assert H(["p", "?x"]) and not H(["p", "?y"]) and H(["not", ["p", "?y"]])
    assert H(["q", "?x", "?y"]) and not H(["q", "?y", "?x"])
    assert H(["not", ["=", "?x", "?y"]]) and not H(["=", "?x", "?y"]) and H(["=", "?x", "?x"])
    assert H(["or", ["p", "?y"], ["r"]]) and not H(["and", ["p", "?y"], ["r"]])
    assert not H(["forall", ["?z", "-", "t"], ["and", ["p", "?z"]]])
    assert H(["forall", ["?z", "-", "u"], ["or", ["not", ["r"]], ["r"]]])
    assert H(["forall", ["?z", "-", "s"], ["and", ["not", ["p", "?z"]]]])   # b and k, both not p
    # prefix arithmetic: (- a b) = a-b ; (/ a b) = a/b
    assert pddl.ev(["-", ["g"], ["f", "?y"]], env, st) == F(1, 2)
    assert pddl.ev(["/", ["f", "?y"], ["g"]], env, st) == F(3, 4)
    assert pddl.ev(["-", "1", ["-", "2", "5"]], env, st) == F(4)
    assert H([">=", ["f", "?y"], "1.5"]) and not H([">", ["f", "?y"], "1.5"]) and H(["=", ["f", "?y"], "1.50005"])
    assert not H(["=", ["f", "?y"], "1.5002"]) and H(["<=", ["f", "?y"], "1.49995"]) and not H(["<", ["f", "?y"], "1.5"])
    try:
        pddl.ev(["/", "1", ["f", "k"]], env, st)
        raise AssertionError("division by zero not flagged")
    except pddl.Undefined:
        pass
    # effects: delete-then-add, conditions on the pre-state, forall over subtypes, rhs on the pre-state
    eff = ["and", ["not", ["p", "?x"]], ["p", "?x"], ["not", ["r"]],
           ["when", ["r"], ["and", ["q", "?y", "?x"]]],
           ["when", ["not", ["r"]], ["and", ["q", "?y", "?y"]]],
           ["forall", ["?z", "-", "t"], ["when", ["not", ["p", "?z"]], ["and", ["increase", ["f", "?z"], ["g"]]]]],
           ["assign", ["g"], ["+", ["g"], ["f", "?x"]]]]
    facts, fl = pddl.successor(eff, env, st, w)
    assert facts == frozenset({("p", "a"), ("q", "a", "b"), ("q", "b", "a")}), facts
    assert fl == {("f", "a"): F(1), ("f", "b"): F(7, 2), ("f", "k"): F(2), ("g",): F(3)}, fl
    try:
        pddl.successor(["and", ["p", "?y"], ["when", ["r"], ["not", ["p", "?y"]]]], env, st, w)
        raise AssertionError("cross-group add/delete conflict not flagged")
    except pddl.Conflict:
        pass
    try:
        pddl.successor(["and", ["assign", ["g"], "1"], ["increase", ["g"], "1"]], env, st, w)
        raise AssertionError("double write not flagged")
    except pddl.Conflict:
        pass
    _, fl3 = pddl.successor(["and", ["increase", ["g"], "1"], ["when", ["r"], ["and", ["decrease", ["g"], "3"]]],
                             ["forall", ["?z", "-", "s"], ["when", ["and"], ["increase", ["g"], ["f", "?z"]]]]], env, st, w)
    assert fl3[("g",)] == F(2) + 1 - 3 + F(3, 2) + 0, fl3
    f2, _ = pddl.successor(["and", ["forall", ["?z", "-", "t"], ["when", ["p", "?z"], ["not", ["p", "?z"]]]]], env, st, w)
    assert ("p", "a") not in f2
