"""Exact rational-function algebra for numeric PDDL expressions (reference for C13).
A polynomial is a dict {monomial: Fraction}; a monomial is a sorted tuple of (variable, exponent)."""
from fractions import Fraction


class NotPolynomial(Exception):
    pass


def p_const(c):
    c = Fraction(c)
    return {(): c} if c else {}


def p_var(v):
    return {((v, 1),): Fraction(1)}


def p_add(a, b, sign=1):
    out = dict(a)
    for m, c in b.items():
        out[m] = out.get(m, 0) + sign * c
        if out[m] == 0:
            del out[m]
    return out


def m_mul(m1, m2):
    d = dict(m1)
    for v, e in m2:
        d[v] = d.get(v, 0) + e
    return tuple(sorted((v, e) for v, e in d.items() if e))


def p_mul(a, b):
    out = {}
    for m1, c1 in a.items():
        for m2, c2 in b.items():
            m = m_mul(m1, m2)
            out[m] = out.get(m, 0) + c1 * c2
            if out[m] == 0:
                del out[m]
    return out


def p_scale(a, k):
    return {m: c * k for m, c in a.items() if c * k}


def is_number(tok):
    try:
        Fraction(tok)
        return True
    except (ValueError, ZeroDivisionError):
        try:
            float(tok)
            return True
        except ValueError:
            return False


def num(tok):
    try:
        return Fraction(tok)
    except ValueError:
        return Fraction(float(tok))


def to_ratfun(e):
    """expression AST -> (numerator poly, denominator poly).  Variables are the flat function terms."""
    if isinstance(e, str):
        return p_const(num(e)), p_const(1)
    if e[0] in ("+", "-", "*", "/") and len(e) == 3:
        (n1, d1), (n2, d2) = to_ratfun(e[1]), to_ratfun(e[2])
        if e[0] in ("+", "-"):
            if d1 == d2:
                return p_add(n1, n2, 1 if e[0] == "+" else -1), d1
            return p_add(p_mul(n1, d2), p_mul(n2, d1), 1 if e[0] == "+" else -1), p_mul(d1, d2)
        if e[0] == "*":
            return p_mul(n1, n2), p_mul(d1, d2)
        if not n2:
            raise ZeroDivisionError
        return p_mul(n1, d2), p_mul(d1, n2)
    return p_var(" ".join(e)), p_const(1)


def degree(p):
    return max([sum(e for _, e in m) for m in p], default=0)


def variables(p):
    return {v for m in p for v, _ in m}


def p_eval(p, point):
    total = Fraction(0)
    for m, c in p.items():
        t = c
        for v, e in m:
            t *= point[v] ** e
        total += t
    return total


def ev(e, point):
    """Direct exact evaluation of an expression AST; raises ZeroDivisionError."""
    if isinstance(e, str):
        return num(e)
    if e[0] in ("+", "-", "*", "/") and len(e) == 3:
        a, b = ev(e[1], point), ev(e[2], point)
        if e[0] == "+":
            return a + b
        if e[0] == "-":
            return a - b
        if e[0] == "*":
            return a * b
        return a / b
    return point[" ".join(e)]
