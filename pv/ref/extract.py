"""Read-back: library objects -> reference S-expressions, through public attributes only."""
from fractions import Fraction


def num_str(v):
    f = float(v)
    if f.is_integer() and abs(f) < 1e15:
        return str(int(f))
    return repr(f)


def x_function(fn):
    return [fn.name] + list(fn.signature.keys())


def x_expr(node):
    from pddl_plus_parser.models import PDDLFunction
    if node.is_leaf:
        v = node.value
        if isinstance(v, PDDLFunction):
            return x_function(v)
        return num_str(v)
    return [node.value] + [x_expr(c) for c in node.children]


def x_pred(p):
    a = [p.name] + list(p.signature.keys())
    return a if p.is_positive else ["not", a]


def x_cond(c):
    from pddl_plus_parser.models import Predicate, NumericalExpressionTree, Precondition, UniversalPrecondition
    items = []
    for o in c.operands:
        if isinstance(o, UniversalPrecondition):
            items.append(["forall", [o.quantified_parameter, "-", o.quantified_type.name], x_cond(o)])
        elif isinstance(o, Precondition):
            items.append(x_cond(o))
        elif isinstance(o, Predicate):
            items.append(x_pred(o))
        elif isinstance(o, NumericalExpressionTree):
            items.append(x_expr(o.root))
        else:
            raise TypeError(f"unknown operand {type(o).__name__}")
    items += [["=", a, b] for a, b in c.equality_preconditions]
    items += [["not", ["=", a, b]] for a, b in c.inequality_preconditions]
    return [c.binary_operator] + items


def x_group(discrete, numeric):
    return ["and"] + [x_pred(p) for p in discrete] + [x_expr(n.root) for n in numeric]


def x_action(a):
    """-> (params [[name, type]...], pre, eff)"""
    eff = x_group(a.discrete_effects, a.numeric_effects)
    for ce in a.conditional_effects:
        eff.append(["when", x_cond(ce.antecedents.root), x_group(ce.discrete_effects, ce.numeric_effects)])
    for ue in a.universal_effects:
        for ce in ue.conditional_effects:
            eff.append(["forall", [ue.quantified_parameter, "-", ue.quantified_type.name],
                        ["when", x_cond(ce.antecedents.root), x_group(ce.discrete_effects, ce.numeric_effects)]])
    params = [[k, v.name] for k, v in a.signature.items()]
    return params, x_cond(a.preconditions.root), eff


def x_vocab(domain):
    """Vocabulary of a parsed domain as plain data."""
    types = {}
    for name, t in domain.types.items():
        types[name] = t.parent.name if t.parent is not None else None
    chains = {}
    for name, t in domain.types.items():
        chain, cur = [], t
        while cur is not None and len(chain) < 20:      # following the parent *objects*, not the table
            chain.append(cur.name)
            cur = cur.parent
        chains[name] = chain
    return {
        "types": types,
        "type_chains": chains,
        "constants": {n: c.type.name for n, c in domain.constants.items()},
        "predicates": {n: [[k, v.name] for k, v in p.signature.items()] for n, p in domain.predicates.items()},
        "functions": {n: [[k, v.name] for k, v in f.signature.items()] for n, f in domain.functions.items()},
        "actions": {n: [[k, v.name] for k, v in a.signature.items()] for n, a in domain.actions.items()},
    }
