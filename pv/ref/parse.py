"""Reference PDDL parser: text of a shipped domain / problem file -> the plain-data specs of pv.ref.pddl.
Independent of the library (built on pv.ref.sexpr only).  Covers what the repository's fixture files
use: :types, :constants, :predicates, :functions, :action with typed parameter lists; problems with
:objects (incl. (:private ...)), :init, :goal."""
from fractions import Fraction

from pv.ref import pddl, sexpr


class Unsupported(Exception):
    pass


def typed_pairs(tokens, default="object"):
    out, group = [], []
    i = 0
    while i < len(tokens):
        t = tokens[i]
        if isinstance(t, list):
            if t and t[0] == ":private":
                out += typed_pairs(t[1:], default)
                i += 1
                continue
            raise Unsupported(f"nested list in typed list: {t[:3]}")
        if t == "-":
            ty = tokens[i + 1]
            if isinstance(ty, list):
                raise Unsupported("either types")
            out += [[g, ty] for g in group]
            group = []
            i += 2
        else:
            group.append(t)
            i += 1
    out += [[g, default] for g in group]
    return out


def parse_domain(text):
    tree = sexpr.read(text)
    if not tree or tree[0] != "define":
        raise Unsupported("not a define form")
    dom = {"name": None, "typed": True, "types": [], "constants": [], "predicates": [], "functions": [], "actions": []}
    for sec in tree[1:]:
        if not isinstance(sec, list) or not sec:
            continue
        h = sec[0]
        if h == "domain":
            dom["name"] = sec[1]
        elif h == ":requirements":
            dom["requirements"] = sec[1:]
        elif h == ":types":
            dom["types"] = [[c, p] for c, p in typed_pairs(sec[1:]) if c != "object"]
        elif h == ":constants":
            dom["constants"] = typed_pairs(sec[1:])
        elif h == ":predicates":
            for p in sec[1:]:
                if p and p[0] == ":private":
                    for q in p[1:]:
                        if isinstance(q, list):
                            dom["predicates"].append([q[0], typed_pairs(q[1:])])
                    continue
                dom["predicates"].append([p[0], typed_pairs(p[1:])])
        elif h == ":functions":
            for f in sec[1:]:
                if isinstance(f, list):
                    dom["functions"].append([f[0], typed_pairs(f[1:])])
        elif h == ":action":
            a = {"name": sec[1], "params": [], "pre": ["and"], "eff": ["and"]}
            i = 2
            while i + 1 < len(sec):
                k, v = sec[i], sec[i + 1]
                if k == ":parameters":
                    a["params"] = typed_pairs(v)
                elif k == ":precondition":
                    a["pre"] = v if v else ["and"]
                elif k == ":effect":
                    a["eff"] = v if (v and v[0] == "and") else ["and", v] if v else ["and"]
                i += 2
            dom["actions"].append(a)
        elif h in (":process", ":event", ":durative-action", ":derived"):
            raise Unsupported(h)
    if not dom["types"] and ":typing" not in dom.get("requirements", []):
        dom["typed"] = False
    return dom


def parse_problem(text, dom):
    tree = sexpr.read(text)
    objects, facts, fluents, goal = [], set(), {}, ["and"]
    name = None
    for sec in tree[1:]:
        if not isinstance(sec, list) or not sec:
            continue
        h = sec[0]
        if h == "problem":
            name = sec[1]
        elif h == ":objects":
            objects = typed_pairs(sec[1:])
        elif h == ":init":
            for e in sec[1:]:
                if e[0] == "=":
                    fluents[tuple(e[1])] = Fraction(float(e[2]))
                elif e[0] == "not":
                    continue
                else:
                    facts.add(tuple(e))
        elif h == ":goal":
            goal = sec[1]
    return {"name": name, "objects": objects, "state": (frozenset(facts), fluents), "goal": goal}


def read_plan(text):
    """One '(name args)' per line, optionally prefixed by a step number; lower-cased."""
    out = []
    for line in text.splitlines():
        line = line.strip()
        if "(" not in line:
            continue
        try:
            out.append(sexpr.read(line[line.index("("):]))
        except sexpr.Reject:
            raise Unsupported(f"plan line {line!r}")
    return out
