"""Choice sources.  Generators are written against this tiny interface so that the same
generator code runs under Hypothesis (shrinkable, replayable), under a plain seeded PRNG
(bounded sweeps that need many cheap draws) and under a byte string (atheris)."""
import random


class Chooser:
    def int(self, lo, hi):
        raise NotImplementedError

    def choice(self, seq):
        seq = list(seq)
        return seq[self.int(0, len(seq) - 1)]

    def flag(self, p=0.5):
        """True with probability ~p.  The minimal draw (0) means False, so shrinking turns
        optional features off."""
        k = int(round(p * 1000))
        return self.int(0, 999) >= 1000 - k

    def perm(self, n):
        items = list(range(n))
        out = []
        while items:
            out.append(items.pop(self.int(0, len(items) - 1)))
        return out

    def shuffle(self, seq):
        seq = list(seq)
        return [seq[i] for i in self.perm(len(seq))]

    def sample(self, seq, k):
        return self.shuffle(seq)[:k]

    def side(self, tag):
        """A chooser for an optional feature added later: under a seeded PRNG it is a stream of its own, so that
        the main stream - and with it every case generated before the feature existed - stays what it was."""
        return self

    def weighted(self, pairs):
        """pairs: [(weight:int, value)].  First entry is the shrink target."""
        total = sum(w for w, _ in pairs)
        r = self.int(0, total - 1)
        for w, v in pairs:
            if r < w:
                return v
            r -= w
        return pairs[-1][1]


class HChooser(Chooser):
    """Backed by a Hypothesis `draw` function (from st.composite or st.data)."""

    def __init__(self, draw):
        from hypothesis import strategies as st
        self._draw = draw
        self._st = st
        self._cache = {}

    def int(self, lo, hi):
        if hi <= lo:
            return lo
        key = (lo, hi)
        s = self._cache.get(key)
        if s is None:
            s = self._cache[key] = self._st.integers(lo, hi)
        return self._draw(s)


class RChooser(Chooser):
    def __init__(self, seed):
        self.seed = seed
        self.r = random.Random(seed)

    def side(self, tag):
        return RChooser(f"{self.seed}/{tag}")

    def int(self, lo, hi):
        if hi <= lo:
            return lo
        return self.r.randint(lo, hi)


class BChooser(Chooser):
    """Consumes a byte string; exhausted input yields the minimal choice."""

    def __init__(self, data: bytes):
        self.data = data
        self.pos = 0

    def int(self, lo, hi):
        if hi <= lo:
            return lo
        span = hi - lo + 1
        nbytes = 1 if span <= 256 else (2 if span <= 65536 else 4)
        chunk = self.data[self.pos:self.pos + nbytes]
        self.pos += nbytes
        if not chunk:
            return lo
        return lo + int.from_bytes(chunk, "big") % span
