"""Harness-owned iteration order for the library's hash sets: a set subclass whose iteration
follows a chosen permutation.  (The library only iterates these sets with for-loops.)"""


class PermutedSet(set):
    def __init__(self, items=(), order=None):
        items = list(items)
        super().__init__(items)
        self._order = list(order) if order is not None else None
        self._items = items

    def _seq(self):
        live = [x for x in self._items if set.__contains__(self, x)]
        extra = [x for x in set.__iter__(self) if not any(x is y for y in live)]
        seq = live + extra
        if self._order:
            n = len(seq)
            idx = [i for i in self._order if i < n]
            idx += [i for i in range(n) if i not in idx]
            seq = [seq[i] for i in idx]
        return seq

    def __iter__(self):
        return iter(self._seq())

    def add(self, x):
        if not set.__contains__(self, x):
            self._items.append(x)
        super().add(x)


def perm_from(seed_ints, n, k):
    """k-th permutation of range(n) derived deterministically from a list of small ints."""
    items = list(range(n))
    out = []
    pos = k * 7
    while items:
        v = seed_ints[pos % len(seed_ints)] if seed_ints else 0
        out.append(items.pop((v + pos) % len(items)))
        pos += 1
    return out


def permute_action(action, ints, k):
    """Replace the effect collections of a parsed Action by PermutedSets (k-th schedule)."""
    j = [k]

    def P(s):
        j[0] += 1
        items = list(s)
        return PermutedSet(items, perm_from(ints, len(items), j[0]))

    action.discrete_effects = P(action.discrete_effects)
    action.numeric_effects = P(action.numeric_effects)
    for ce in list(action.conditional_effects):
        ce.discrete_effects = P(ce.discrete_effects)
        ce.numeric_effects = P(ce.numeric_effects)
    for ue in list(action.universal_effects):
        for ce in list(ue.conditional_effects):
            ce.discrete_effects = P(ce.discrete_effects)
            ce.numeric_effects = P(ce.numeric_effects)
        ue.conditional_effects = P(ue.conditional_effects)
    action.conditional_effects = P(action.conditional_effects)
    action.universal_effects = P(action.universal_effects)


def permute_operator(op, ints, k):
    """After op.ground(): permute the grounded effect collections."""
    j = [k + 100]

    def P(s):
        j[0] += 1
        items = list(s)
        return PermutedSet(items, perm_from(ints, len(items), j[0]))

    for ge in list(op.grounded_effects):
        ge.grounded_discrete_effects = P(ge.grounded_discrete_effects)
        ge.grounded_numeric_effects = P(ge.grounded_numeric_effects)
    op.grounded_effects = P(op.grounded_effects)
    op.lifted_universal_effects = op.action.universal_effects


def permute_dict(d, ints, k):
    keys = list(d)
    order = perm_from(ints, len(keys), k + 200)
    return {keys[i]: d[keys[i]] for i in order}


# ---- deterministic two-thread scheduler ---------------------------------------------------------------
import sys as _sys
import threading as _threading


class TwoThreadScheduler:
    """Two Python threads pass a baton at line events inside the library's files; the interleaving is
    the list of global line-event counts at which the running thread yields.  An interleaving is a
    plain value: it replays and shrinks like any other part of a case.  (Free-running preemption is
    not used: it is not replayable.)"""

    def __init__(self, switch_points, prefix):
        self.sw = set(switch_points)
        self.prefix = prefix
        self.cv = _threading.Condition()
        self.turn = 0
        self.steps = 0
        self.done = [False, False]

    def _tracer(self, me):
        def local(frame, event, arg):
            if event == "line":
                self._maybe_switch(me)
            return local

        def glob(frame, event, arg):
            if frame.f_code.co_filename.startswith(self.prefix):
                return local
            return None
        return glob

    def _maybe_switch(self, me):
        with self.cv:
            self.steps += 1
            if self.steps in self.sw and not self.done[1 - me]:
                self.turn = 1 - me
                self.cv.notify_all()
                while self.turn != me and not self.done[1 - me]:
                    self.cv.wait(timeout=30)

    def run(self, f0, f1):
        res = [None, None]

        def body(me, f):
            with self.cv:
                while self.turn != me and not self.done[1 - me]:
                    self.cv.wait(timeout=30)
            _sys.settrace(self._tracer(me))
            try:
                res[me] = ("ok", f())
            except Exception as e:  # noqa: library outcome
                res[me] = ("exc", f"{type(e).__name__}: {str(e)[:200]}")
            finally:
                _sys.settrace(None)
                with self.cv:
                    self.done[me] = True
                    self.turn = 1 - me
                    self.cv.notify_all()
        ts = [_threading.Thread(target=body, args=(i, f)) for i, f in enumerate((f0, f1))]
        for t in ts:
            t.start()
        for t in ts:
            t.join()
        return res, self.steps
