"""Access to the code under test.  Everything the checks do with pddl_plus_parser goes through
here: temp files, exception capture with a stable bucket key, quiet logging."""
import atexit
import logging
import os
import shutil
import tempfile
import traceback
import warnings
from pathlib import Path

if os.environ.get("PV_LOGGING") == "debug":
    # configuration "debug-logging": every logger enabled at DEBUG (as the repository's own pytest.ini does), records
    # discarded - what the library computes must not depend on whether somebody listens
    logging.disable(logging.NOTSET)
    logging.getLogger().setLevel(logging.DEBUG)
    logging.getLogger().addHandler(logging.NullHandler())
    logging.lastResort = None
else:
    logging.disable(logging.CRITICAL)
warnings.filterwarnings("ignore")

_TMP = None
_COUNTER = [0]


def tmpdir() -> Path:
    global _TMP
    if _TMP is None or _TMP[0] != os.getpid():
        base = "/dev/shm" if os.path.isdir("/dev/shm") and os.access("/dev/shm", os.W_OK) else None
        d = tempfile.mkdtemp(prefix="pv_", dir=base)
        _TMP = (os.getpid(), Path(d))
        atexit.register(shutil.rmtree, d, True)
    return _TMP[1]


def cleanup_tmp():
    global _TMP
    if _TMP is not None and _TMP[0] == os.getpid():
        shutil.rmtree(_TMP[1], ignore_errors=True)
        _TMP = None


def write_tmp(text: str, suffix=".pddl", newline=None) -> Path:
    _COUNTER[0] += 1
    p = tmpdir() / f"f{_COUNTER[0]}{suffix}"
    with open(p, "w", encoding="utf-8", newline=newline if newline is not None else "") as fh:
        fh.write(text)
    return p


def fresh_dir() -> Path:
    _COUNTER[0] += 1
    p = tmpdir() / f"d{_COUNTER[0]}"
    p.mkdir()
    return p


class LibError:
    """Outcome of a library call that raised."""

    def __init__(self, exc: BaseException):
        self.type = type(exc).__name__
        self.msg = str(exc)[:200]
        frame = "?"
        for fs in reversed(traceback.extract_tb(exc.__traceback__)):
            if "pddl_plus_parser" in fs.filename:
                frame = f"{os.path.basename(fs.filename)}:{fs.name}"
                break
        self.where = frame

    @property
    def key(self):
        return f"{self.type}@{self.where}"

    def __repr__(self):
        return f"LibError({self.key}: {self.msg})"


def lib_call(fn, *a, **kw):
    """Returns (True, value) or (False, LibError).  Only Exception subclasses are outcomes;
    KeyboardInterrupt / SystemExit / MemoryError propagate."""
    try:
        return True, fn(*a, **kw)
    except RecursionError as e:  # treated as an ordinary library exception
        return False, LibError(e)
    except MemoryError:
        raise
    except Exception as e:  # noqa
        if type(e).__name__ == "NonFinite":      # harness signal (float overflow), not a library outcome
            raise
        if isinstance(e, NameError) and not any("pddl_plus_parser" in fs.filename for fs in traceback.extract_tb(e.__traceback__)):
            raise                                  # an undefined name in the harness's own code is a harness bug, not an outcome
        return False, LibError(e)


# ---- thin wrappers -------------------------------------------------------------------------

def parse_domain_text(text: str, **kw):
    from pddl_plus_parser.lisp_parsers import DomainParser
    p = write_tmp(text)
    try:
        return DomainParser(p, **kw).parse_domain()
    finally:
        try:
            os.unlink(p)
        except OSError:
            pass


def parse_problem_text(text: str, domain):
    from pddl_plus_parser.lisp_parsers import ProblemParser
    p = write_tmp(text)
    try:
        return ProblemParser(p, domain).parse_problem()
    finally:
        try:
            os.unlink(p)
        except OSError:
            pass
