"""Known-findings registry.  KNOWN_FINDINGS.txt is committed and never written at run time.

  finding: property=C11 id=C11-trailing-text repro=findings/C11/trailing_text.json :: what fails
  fixed: property=C03 <commit> what failed

A `finding:` excuses exactly the behaviour its defect model / exclusion in the property module
describes, and only while its committed reproducer still fails on the tree under test."""
import glob
import json
import os
import re

ROOT = os.path.dirname(os.path.dirname(os.path.abspath(__file__)))
FILE = os.path.join(ROOT, "KNOWN_FINDINGS.txt")


def entries():
    out = []
    if not os.path.exists(FILE):
        return out
    for line in open(FILE):
        line = line.strip()
        if not line.startswith("finding:"):
            continue
        head, _, desc = line[len("finding:"):].partition("::")
        kv = dict(m.groups() for m in re.finditer(r"(\w+)=(\S+)", head))
        kv["desc"] = desc.strip()
        out.append(kv)
    return out


def determine_active(pid, prop, quiet=False):
    from pv import ctx
    active = set()
    for e in entries():
        if e.get("property") != pid:
            continue
        path = os.path.join(ROOT, e["repro"])
        with open(path) as fh:
            doc = json.load(fh)
        ctx.ACTIVE = frozenset()
        res = prop.check_case(doc["case"])
        if res.disc:
            active.add(e.get("model", e["id"]))
            if not quiet:
                print(f"KNOWN-FINDING: property={pid} id={e['id']} {e['desc']}")
        elif not quiet:
            print(f"note: known finding {e['id']} no longer reproduces; it excuses nothing in this run")
    return active


def load_corpus(pid):
    repro_files = {os.path.normpath(os.path.join(ROOT, e["repro"])) for e in entries()}
    out = []
    for path in sorted(glob.glob(os.path.join(ROOT, "findings", pid, "*.json"))):
        if os.path.normpath(path) in repro_files:
            continue
        with open(path) as fh:
            doc = json.load(fh)
        if doc.get("kind") == "finding":
            continue
        out.append((os.path.basename(path), doc["case"]))
    return out
