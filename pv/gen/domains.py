"""Generators for fragment F (DESIGN section 6): domains, universes, states, calls.
All randomness comes from a Chooser; results are plain data."""
import json
from fractions import Fraction

from pv.ref import pddl

DEFAULT = dict(
    typed=True, subtypes=True, constants=True, numeric=True, equality=True, negative=True,
    nested=True, forall_pre=True, when=True, forall_eff=True, division=True,
    max_actions=2, max_params=3, max_arity=2, group_params=True,
    rich_nested_numeric=False,   # numeric conditions inside nested/forall groups beyond (cmp fterm const|fterm)
    rich_when_numeric=True,      # the same for the conditions of when / forall-when effects
    lifted_repeat=False,         # lifted atoms / function terms with a repeated argument (known finding trigger)
    max_leaves=3, empty_pre=True, p_when=0.45, p_forall_eff=0.35,
)

NUMBERS = ["0", "1", "2", "3", "0.5", "1.5", "-1", "-2", "0.25", "10", "5", "-0.5"]
VALUES = [Fraction(x) for x in ["0", "1", "2", "3", "-1", "-2", "5", "10"]] + \
         [Fraction(1, 2), Fraction(3, 2), Fraction(1, 4), Fraction(-1, 2), Fraction(7, 2)]
PARAMS = ["?x", "?y", "?v", "?u", "?q", "?r"]
QVARS = ["?z", "?w"]
QVARS_LONG = ["?xz", "?yw"]


def feats(**kw):
    f = dict(DEFAULT)
    f.update(kw)
    return f


# names where one is a proper prefix of another: the library matches facts by substring search in
# serialized text, so o1 / o10 and p1 / p10 are deliberately close
ONAMES = ["o1", "o10", "o2", "o20", "o3", "o30", "o4", "o40"]
PNAMES = ["p1", "p10", "p2", "p20"]
FNAMES = ["f1", "f10", "f2", "f20"]
KNAMES = ["k1", "k10", "k2", "k20"]
ANAMES = ["ag1", "ag10", "ag2", "ag20"]      # agents too: one name a proper prefix of another


def gen_vocab(ch, ft):
    typed = ft["typed"]
    types = []
    if typed:
        n = ch.int(1, 4)
        for i in range(n):
            parent = "object"
            if ft["subtypes"] and i > 0 and ch.flag(0.6):
                parent = f"t{ch.int(0, i - 1)}"
            types.append([f"t{i}", parent])
    if ft.get("agent_first"):
        types.append(["agent", "object"])
    tnames = [t for t, _ in types] or ["object"]
    allt = tnames + (["object"] if typed and ch.flag(0.3) else [])

    def pick_type():
        return ch.choice(allt) if typed else "object"

    consts = []
    if ft["constants"] and ch.flag(0.5):
        # up to four constants, so that constants of one type can be declared around one of another type
        for i in range(ch.weighted([(3, 1), (3, 2), (2, 3), (1, 4)])):
            t = pick_type()
            consts.append([KNAMES[i], "object" if t == "agent" else t])
    preds = []
    for i in range(ch.int(1, 4)):
        ar = min(ch.weighted([(3, 1), (3, 2), (2, 0), (1, 3)]), ft["max_arity"])
        preds.append([PNAMES[i], [[f"?a{j}", pick_type()] for j in range(ar)]])
    funcs = []
    if ft["numeric"]:
        for i in range(ch.int(1, 3)):
            ar = min(ch.weighted([(3, 1), (2, 0), (2, 2), (1, 3)]), ft["max_arity"])
            funcs.append([FNAMES[i], [[f"?a{j}", pick_type()] for j in range(ar)]])
    objects = []
    for i in range(ch.int(2, 4)):
        objects.append([ONAMES[i], pick_type()])
    if ft.get("agent_first"):
        objects = [o for o in objects if o[1] != "agent"]
        for i in range(ch.int(ft.get("min_agents", 2), 4)):
            objects.append([ANAMES[i], "agent"])
    dom = {"name": "d", "typed": typed, "types": types, "constants": consts, "predicates": preds,
           "functions": funcs, "actions": []}
    return dom, objects


class FGen:
    """Formula / effect generator for one action scope."""

    def __init__(self, ch, dom, ft):
        self.ch, self.dom, self.ft = ch, dom, ft
        self.types = pddl.Types(dom["types"])
        # in 4 cases of 10 the eliminable-looking equalities are over a difference, (= (- A B) 0): nothing to eliminate with
        self.minus_eq = bool(ft.get("nested_monomials")) and ch.side("minus-eq").flag(0.4)
        self.comp = ch.side("companion")
        self.dup = ch.side("same-term-twice")
        self.neg = ch.side("negative-coefficient")
        # in 3 cases of 10 the quantified variables are named like a parameter plus a letter (?xz next to ?x)
        self.qvars = QVARS_LONG if ch.side("qvars").flag(0.3) else QVARS

    def terms(self, scope, typ):
        out = [v for v, t in scope if self.types.is_sub(t, typ)]
        out += [c for c, t in self.dom["constants"] if self.types.is_sub(t, typ)]
        return out

    def args_for(self, sig, scope):
        args = []
        for _, typ in sig:
            cands = self.terms(scope, typ)
            if not self.ft["lifted_repeat"]:
                cands = [c for c in cands if c not in args]
            if not cands:
                return None
            args.append(self.ch.choice(cands))
        return args

    def atom(self, scope):
        preds = self.dom["predicates"]
        for _ in range(6):
            name, sig = self.ch.choice(preds)
            args = self.args_for(sig, scope)
            if args is not None:
                return [name] + args
        for name, sig in preds:
            args = self.args_for(sig, scope)
            if args is not None:
                return [name] + args
        return None

    def fterm(self, scope):
        funcs = self.dom["functions"]
        if not funcs:
            return None
        for _ in range(6):
            name, sig = self.ch.choice(funcs)
            args = self.args_for(sig, scope)
            if args is not None:
                return [name] + args
        for name, sig in funcs:
            args = self.args_for(sig, scope)
            if args is not None:
                return [name] + args
        return None

    def number(self, simple=False):
        """A constant: mostly from the small pool; with ft["p_long_number"] (outside the simplifier-bound nested
        positions) one with 1..ft["long_decimals"] decimals and an integer part of up to five digits."""
        ch = self.ch
        p = self.ft.get("p_long_number", 0.0)
        if p and not simple and ch.flag(p):
            nd = ch.int(1, self.ft.get("long_decimals_eff" if getattr(self, "_in_effect", False) else "long_decimals",
                                       self.ft.get("long_decimals", 7)))
            ip = ch.choice(["0", "0", str(ch.int(1, 9)), str(ch.int(10, 999)), str(ch.int(1000, 99999))])
            frac = "".join(ch.choice("0123456789") for _ in range(nd - 1)) + ch.choice("123456789")
            return ("-" if ch.flag(0.2) else "") + ip + "." + frac
        return ch.choice(NUMBERS)

    def expr(self, scope, depth):
        ch = self.ch
        k = ch.weighted([(4, "f"), (3, "n"), (4, "op")]) if depth > 0 else ch.weighted([(3, "f"), (2, "n")])
        if k == "f":
            return self.fterm(scope) or self.number()
        if k == "n":
            return self.number()
        ops = ["+", "-", "*"] + (["/"] if self.ft["division"] else [])
        op = ch.choice(ops)
        a = self.expr(scope, depth - 1)
        if op == "/":
            b = ch.choice(["2", "4", "0.5", "-2", "5"]) if ch.flag(0.7) else (self.fterm(scope) or "2")
        else:
            b = self.expr(scope, depth - 1)
            if self.dup.flag(0.15):
                # the same function term twice in one expression, (* (f ?x) (f ?x)) or (+ (- (f ?x) 1) (f ?x))
                fl = self.first_fluent(a)
                if fl is not None:
                    b = list(fl)
        return [op, a, b]

    @staticmethod
    def first_fluent(e):
        if isinstance(e, str):
            return None
        if e[0] in pddl.NUM_OPS and len(e) == 3:
            return FGen.first_fluent(e[1]) or FGen.first_fluent(e[2])
        return e

    @staticmethod
    def has_fluent(e):
        if isinstance(e, str):
            return False
        if e[0] in pddl.NUM_OPS and len(e) == 3:
            return FGen.has_fluent(e[1]) or FGen.has_fluent(e[2])
        return True

    def numeric_cond(self, scope, simple):
        ch = self.ch
        ft = self.fterm(scope)
        if ft is None:
            return None
        op = ch.choice(["<", "<=", ">", ">=", "="])
        if simple and self.ft.get("nested_monomials") and ch.flag(0.12):
            # an equality of the shape the printer eliminates with: (= (+ A B) 0 | C | number)
            b = None
            for _ in range(4):
                b = self.fterm(scope)
                if b is not None and b != ft:
                    break
                b = None
            if b is not None:
                r = ch.choice(["0", "0", "1", "2.5"])
                if ch.flag(0.3):
                    c3 = self.fterm(scope)
                    if c3 is not None and c3 not in (ft, b):
                        r = c3
                return ["=", ["-" if self.minus_eq else "+", ft, b], r]
        if simple and self.ft.get("nested_monomials") and ch.flag(0.3):
            # simplifier-stable beyond (cmp fluent number): a fluent times one or two constants whose product has
            # <= 2 decimals (0.29 * 100 is 28.999999999999996 in floats), compared with another fluent (monomial)
            other = None
            for _ in range(4):
                other = self.fterm(scope)
                if other is not None and other != ft:
                    break
                other = None
            if other is not None:
                def mono(t):
                    c1 = ch.choice(["0.29", "0.57", "0.07", "1.13", "0.5", "2.25", "0.35", "1.1"])
                    c2 = ch.choice(["100", "10", "2", "5", "3", "100"])
                    if self.neg.flag(0.3):
                        c2 = self.neg.choice(["-2", "-10", "-1", "-5"])        # a negative coefficient
                    return ch.choice([["*", ["*", t, c1], c2], ["*", c2, ["*", t, c1]], ["*", c1, ["*", t, c2]],
                                      ["*", t, c1], ["*", c2, t], t])
                left = mono(ft)
                if op != "=" and self.neg.flag(0.3) and left is not ft:
                    # a lone product against a number, (<= (* -2 (f ?x)) -6)
                    return [op, left, self.neg.choice(["-6", "3", "0", "2.5", "-1.5", "12"])]
                return [op, left, mono(other)]
        if simple:
            rhs = self.number(True) if ch.flag(0.6) else (self.fterm(scope) or self.number(True))
            if rhs == ft:
                rhs = self.number(True)
            return [op, ft, rhs]
        for _ in range(5):
            a, b = self.expr(scope, 2), self.expr(scope, 2)
            if isinstance(a, str):
                if op == "=" or not self.has_fluent(b):
                    continue
            if not (self.has_fluent(a) or self.has_fluent(b)):
                continue
            if not isinstance(a, str) and not isinstance(b, str) and not self.has_fluent(a) and False:
                continue
            return [op, a, b]
        return [op, ft, self.number()]

    def leaf(self, scope, simple_numeric=False):
        ch, ft = self.ch, self.ft
        opts = [(4, "atom")]
        if ft["negative"]:
            opts.append((3, "neg"))
        if ft["equality"] and len(scope) >= 2:
            opts.append((2, "eq"))
        if ft["numeric"] and self.dom["functions"]:
            opts.append((4, "num"))
        k = ch.weighted(opts)
        if k in ("atom", "neg"):
            a = self.atom(scope)
            if a is None:
                return None
            return a if k == "atom" else ["not", a]
        if k == "eq":
            i = ch.int(0, len(scope) - 1)
            j = ch.int(0, len(scope) - 2)
            if j >= i:
                j += 1
            e = ["=", scope[i][0], scope[j][0]]
            return e if ch.flag(0.5) else ["not", e]
        return self.numeric_cond(scope, simple_numeric)

    def leaves(self, scope, lo, hi, simple_numeric=False):
        out = []
        for _ in range(self.ch.int(lo, hi)):
            x = self.leaf(scope, simple_numeric)
            if x is not None:
                out.append(x)
        if simple_numeric and self.ft.get("nested_monomials"):
            # an equality one could eliminate with is worth little alone: in 6 groups of 10 a comparison over one of
            # its two fluents stands next to it
            for x in list(out):
                if x[0] == "=" and isinstance(x[1], list) and x[1][0] in ("+", "-") and self.comp.flag(0.75):
                    out.append([self.comp.choice(["<", "<=", ">", ">="]), x[1][self.comp.choice([1, 1, 2])],
                                self.comp.choice(["3", "-3", "0", "1.5", "-0.25", "12"])])
        return out

    def group(self, scope, depth=1):
        simple = not self.ft["rich_nested_numeric"]
        op = self.ch.choice(["or", "and"])
        items = self.leaves(scope, 1, 3, simple)
        if depth > 0 and self.ch.flag(0.25):
            sub = self.group(scope, depth - 1)
            if sub is not None:
                items.append(sub)
        if not items:
            return None
        return [op] + items

    def qtype(self):
        if not self.dom["typed"]:
            return "object"
        names = [t for t, _ in self.dom["types"]]
        return "object" if self.ch.flag(0.1) else self.ch.choice(names)

    def forall_pre(self, scope):
        simple = not self.ft["rich_nested_numeric"]
        used = {v for v, _ in scope}
        qv = [q for q in self.qvars if q not in used][0]
        qt = self.qtype()
        sc2 = scope + [(qv, qt)]
        body = self.leaves(sc2, 1, 2, simple)
        if not body:
            return None
        return ["forall", [qv, "-", qt], [self.ch.choice(["and", "or"])] + body]

    def pre(self, scope):
        ch, ft = self.ch, self.ft
        items = self.leaves(scope, 0 if ft["empty_pre"] else 1, ft["max_leaves"])
        if ft["nested"] and ch.flag(0.35):
            g = self.group(scope)
            if g is not None:
                items.append(g)
        if ft["forall_pre"] and self.dom["typed"] and ch.flag(0.3):
            g = self.forall_pre(scope)
            if g is not None:
                items.append(g)
        items = ch.shuffle(items) if len(items) > 1 else items
        return ["and"] + items

    def simple_eff(self, scope):
        ch = self.ch
        opts = [(4, "add"), (3, "del")]
        if self.ft["numeric"] and self.dom["functions"]:
            opts.append((4, "num"))
        k = ch.weighted(opts)
        if k == "num":
            ftm = self.fterm(scope)
            if ftm is not None:
                self._in_effect = True
                try:
                    rhs = self.expr(scope, 2)
                finally:
                    self._in_effect = False
                return [ch.choice(["assign", "increase", "decrease"]), ftm, rhs]
            k = "add"
        a = self.atom(scope)
        if a is None:
            return None
        return a if k == "add" else ["not", a]

    def simple_effs(self, scope, lo, hi):
        out = []
        for _ in range(self.ch.int(lo, hi)):
            e = self.simple_eff(scope)
            if e is not None:
                out.append(e)
                # the same increase / decrease written twice is legal and adds up
                if e[0] in ("increase", "decrease") and self.ch.flag(0.08):
                    out.append(list(e))
        return out

    def cond(self, scope):
        ch = self.ch
        simple = not self.ft["rich_when_numeric"]
        k = ch.weighted([(4, "leaf"), (3, "and"), (2 if self.ft["nested"] else 0, "nested"), (2 if self.ft["nested"] else 0, "or")])
        if k == "or":
            xs = self.leaves(scope, 2, 3, not self.ft["rich_nested_numeric"])
            if len(xs) >= 2:
                return ["or"] + xs
        if k == "leaf":
            x = self.leaf(scope, simple)
            if x is not None:
                return x
        if k == "nested":
            g = self.group(scope, 0)
            if g is not None:
                return ["and"] + self.leaves(scope, 0, 1, simple) + [g]
        xs = self.leaves(scope, 1, 2, simple)
        if not xs:
            a = self.atom(scope)
            xs = [a] if a else []
        return ["and"] + xs

    def when(self, scope):
        effs = self.simple_effs(scope, 1, 2)
        if not effs:
            return None
        body = ["and"] + effs if (len(effs) > 1 or self.ch.flag(0.5)) else effs[0]
        return ["when", self.cond(scope), body]

    def forall_eff(self, scope):
        used = {v for v, _ in scope}
        qv = [q for q in self.qvars if q not in used][0]
        qt = self.qtype()
        ps = self.ft.get("p_shadow", 0.0)
        if ps and scope and self.ch.flag(ps):
            # the quantified variable re-uses the name of an action parameter and shadows it inside the effect
            qv = self.ch.choice([v for v, _ in scope])
            scope = [(v, t) for v, t in scope if v != qv]
        w = self.when(scope + [(qv, qt)])
        if w is None:
            return None
        return ["forall", [qv, "-", qt], w]

    def eff(self, scope):
        ch, ft = self.ch, self.ft
        items = self.simple_effs(scope, 1, 3)
        if ft["when"] and ch.flag(ft["p_when"]):
            w = self.when(scope)
            if w:
                items.append(w)
        if ft["when"] and ch.flag(0.15):
            w = self.when(scope)
            if w:
                whens = [x for x in items if x and x[0] == "when"]
                if whens and ch.flag(0.5):
                    # the same consequences as an earlier when, under another condition: two effect groups all the same
                    w = ["when", w[1], json.loads(json.dumps(whens[0][2]))]
                items.append(w)
        if ft["forall_eff"] and self.dom["typed"] and ch.flag(ft["p_forall_eff"]):
            f = self.forall_eff(scope)
            if f:
                items.append(f)
                if ch.flag(0.3):
                    f2 = self.forall_eff(scope)       # a second quantified effect, usually over another type
                    if f2:
                        items.append(f2)
        items = ch.shuffle(items) if len(items) > 1 else items
        return ["and"] + items


def gen_action(ch, dom, ft, name="act"):
    tnames = [t for t, _ in dom["types"]] or ["object"]
    n = ch.int(0, ft["max_params"])
    params = []
    if ft.get("agent_first") and ft.get("p_zero_param") and ch.flag(ft["p_zero_param"]):
        n = 0                                      # a parameterless action: any agent's slot may hold it
    elif ft.get("agent_first"):
        params.append(["?ag", "agent"])
        n = max(0, n - 1)
    # 1 action in 10 names its parameters like the variables of the predicate / function declarations (?a0 ?a1 ...)
    pnames = ["?a0", "?a1", "?a2", "?a3", "?a4", "?a5"] if ch.flag(ft.get("p_decl_names", 0.1)) else PARAMS
    for i in range(n):
        # the root type is a legitimate parameter type of a typed domain too
        t = "object" if (not dom["typed"] or ch.flag(0.12)) else ch.choice(tnames)
        params.append([pnames[i], t])
    g = FGen(ch, dom, ft)
    scope = [(p, t) for p, t in params]
    return {"name": name, "params": params, "pre": g.pre(scope), "eff": g.eff(scope),
            "group_params": bool(ft["group_params"] and ch.flag(0.3))}


def gen_domain(ch, ft=None):
    ft = ft or DEFAULT
    dom, objects = gen_vocab(ch, ft)
    for i in range(ch.int(1, ft["max_actions"])):
        dom["actions"].append(gen_action(ch, dom, ft, f"act{i}"))
    # every parameter type gets at least one object, so every action has a type-correct call
    types = pddl.Types(dom["types"])
    for a in dom["actions"]:
        for _, t in a["params"]:
            have = [n for n, ot in objects + dom["constants"] if types.is_sub(ot, t)]
            if not have:
                k = 0
                while any(n in (ONAMES[k % len(ONAMES)] + "x" * (k // len(ONAMES)), f"ag{k}") for n, _ in objects):
                    k += 1
                objects.append([f"ag{k}" if t == "agent" else ONAMES[k % len(ONAMES)] + "x" * (k // len(ONAMES)), t])
    side = ch.side("domain-writing")
    if dom["typed"]:
        # names of the root type at the end of a typed list may be written bare: (?t - truck ?l - loc ?thing)
        if side.flag(0.3):
            dom["bare_tail"] = True
        # the requirements are written in several legitimate ways (:adl implies :typing; the section may list more
        # than is used, in any order); what is declared and checked does not depend on it
        r = side.weighted([(13, None), (3, [":adl"]), (2, [":adl", ":fluents"]), (1, [":typing", ":strips"]),
                           (1, [":strips", ":negative-preconditions", ":equality", ":typing", ":fluents",
                                ":disjunctive-preconditions", ":universal-preconditions", ":conditional-effects"])])
        if r is not None:
            dom["requirements"] = r
    return dom, objects


# large values a small absolute distance apart: a tolerance that silently became relative calls them equal
BIG_VALUES = [Fraction(x) for x in ["250000", "250010", "250000.5", "249999.75", "1000000", "1000050", "1000000.25",
                                    "-250000", "-250010", "40000", "40002"]]


def gen_state(ch, world, density=None, values=None):
    atoms = world.ground_atoms()
    p = density if density is not None else ch.choice([0.2, 0.5, 0.8])
    facts = frozenset(a for a in atoms if ch.flag(p))
    fl = {k: ch.choice(values or VALUES) for k in world.ground_fluents()}
    return facts, fl


def gen_call(ch, world, action):
    args = []
    for _, t in action["params"]:
        cands = world.of_type(t)
        if not cands:
            return None
        args.append(ch.choice(cands))
    return args
