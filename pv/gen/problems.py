"""Problem generator over a generated domain.

Problem spec (JSON-able):
  {"name": str, "objects": [[name, type], ...], "object_decl": [...groups...] | None,
   "facts": [[pred, arg...], ...], "fluents": [[[fn, arg...], "value token"], ...],
   "goal_lits": [[pred, arg...], ...], "goal_conds": [[cmp, expr, expr], ...]}
object_decl: list of groups; a group is [[names...], type|None] or {"private": [groups...]}.
"""
from pv.ref import pddl

VALUE_TOKENS = ["0", "1", "2", "-1", "3", "10", "0.5", "-0.5", "1.5", "2.25", "-3.75", "100", "0.001",
                "1e3", "2.5e-2", "-1E2", "1.0", "12345.678", "0.1", "-0.0", "3.14159"]
GOAL_NUMBERS = ["0", "1", "2", "0.5", "-1", "10", "1.5", "0.25", "3.125"]


def gen_objects(ch, dom, min_n=2, max_n=5):
    tnames = [t for t, _ in dom["types"]] if dom.get("typed", True) else []
    objects = []
    for i in range(ch.int(min_n, max_n)):
        t = ch.choice(tnames + ["object"]) if tnames and not ch.flag(0.1) else "object"
        objects.append([["o1", "o10", "o2", "o20", "o3"][i], t])
    return objects


def object_decl(ch, objects, typed=True):
    """A drawn rendering of the object list: individual, grouped, trailing untyped, :private."""
    if not typed:
        return [[[n for n, _ in objects], None]] if objects else []
    typed_objs = [o for o in objects if o[1] != "object" or ch.flag(0.5)]
    bare = [o for o in objects if o not in typed_objs]
    groups = []
    by_type = {}
    for n, t in typed_objs:
        if ch.flag(0.5):
            by_type.setdefault(t, []).append(n)
        else:
            groups.append([[n], t])
    for t, ns in by_type.items():
        groups.append([ns, t])
    groups = ch.shuffle(groups)
    if len(groups) >= 2 and ch.flag(0.25):
        k = ch.int(1, len(groups) - 1)
        groups = groups[:k] + [{"private": groups[k:k + 1]}] + groups[k + 1:]
    if bare:
        groups.append([[n for n, _ in bare], None])
        side = ch.side("private-last")
        if any(isinstance(g, dict) for g in groups) and side.flag(0.5):
            # the private block after the whole public list: the bare public names stand directly before it
            groups = [g for g in groups if not isinstance(g, dict)] + [g for g in groups if isinstance(g, dict)]
    return groups


def decl_tokens(groups):
    toks = []
    for g in groups:
        if isinstance(g, dict):
            toks.append([":private"] + decl_tokens(g["private"]))
        else:
            names, t = g
            toks += list(names)
            if t is not None:
                toks += ["-", t]
    return toks


def gen_value_token(ch):
    """A number token of 1-15 significant digits and magnitude 1e-12 .. 1e18, written as a plain decimal or in the
    scientific forms float() reads (1.5e-07, 2E+3, 4e10)."""
    nd = ch.int(1, 15)
    digits = str(ch.int(1, 9)) + "".join(ch.choice("0123456789") for _ in range(nd - 1))
    exp = ch.int(-12, 18)                      # decimal exponent of the leading digit
    sign = "-" if ch.flag(0.3) else ""
    style = ch.weighted([(3, "plain"), (2, "sci")])
    if style == "plain" and -7 <= exp <= 15:
        if exp >= nd - 1:
            return sign + digits + "0" * (exp - nd + 1)
        if exp >= 0:
            return sign + digits[:exp + 1] + "." + digits[exp + 1:]
        return sign + "0." + "0" * (-exp - 1) + digits
    mant = digits[0] + ("." + digits[1:] if nd > 1 else "")
    e = ch.choice(["e", "E"])
    es = ("-" if exp < 0 else ch.choice(["", "+"])) + ch.choice(["", "0"]) + str(abs(exp))
    return sign + mant + e + es


def gen_problem(ch, dom, objects=None, repeated=True, max_items=6, ternary_repeat=False):
    objects = objects if objects is not None else gen_objects(ch, dom)
    world = pddl.World(dom, objects)
    facts, fluents = [], []
    atoms = world.ground_atoms()
    if not repeated:
        atoms = [a for a in atoms if len(set(a[1:])) == len(a) - 1]
    for a in ch.sample(atoms, min(len(atoms), ch.int(0, max_items))):
        facts.append(list(a))
    gfl = world.ground_fluents()
    if not ternary_repeat:   # >=3-ary fluents with a repeated object: known finding trigger, excluded by construction
        gfl = [f for f in gfl if not (len(f) > 3 and len(set(f[1:])) < len(f) - 1)]
    for f in ch.sample(gfl, min(len(gfl), ch.int(0, max_items))):
        fluents.append([list(f), gen_value_token(ch) if ch.flag(0.3) else ch.choice(VALUE_TOKENS)])
    goal_lits = [list(a) for a in ch.sample(atoms, min(len(atoms), ch.int(0, 3)))]
    goal_conds = []
    if gfl and ch.flag(0.5):
        for _ in range(ch.int(1, 2)):
            goal_conds.append(gen_goal_cond(ch, gfl))
    return {"name": "pr", "objects": objects, "object_decl": object_decl(ch, objects, dom.get("typed", True)),
            "facts": facts, "fluents": fluents, "goal_lits": goal_lits, "goal_conds": goal_conds}


def gen_goal_cond(ch, gfl):
    def expr(d):
        k = ch.weighted([(4, "f"), (2, "n"), (3 if d > 0 else 0, "op")])
        if k == "f":
            return list(ch.choice(gfl))
        if k == "n":
            return ch.choice(GOAL_NUMBERS)
        return [ch.choice(["+", "-", "*", "/"]), expr(d - 1), expr(d - 1)]
    op = ch.choice([">", ">=", "<", "<=", "="])
    if op != "=" and ch.flag(0.12):
        # written with the number first: (<= 2 (fuel t2)); the bound is one the init values hit (0, 1, 2, 10, 0.5)
        return [op, ch.choice(["0", "1", "2", "10", "0.5", "-1"]), list(ch.choice(gfl))]
    lhs = list(ch.choice(gfl)) if (op == "=" or ch.flag(0.6)) else expr(1)
    if isinstance(lhs, str):
        lhs = list(ch.choice(gfl))
    return [op, lhs, expr(1)]


def problem_tree(dom, pr, domain_name=None):
    t = ["define", ["problem", pr["name"]], [":domain", domain_name or dom["name"]]]
    decl = pr.get("object_decl")
    if decl is None:
        decl = [[[n], ty] for n, ty in pr["objects"]] if dom.get("typed", True) else [[[n for n, _ in pr["objects"]], None]]
    t.append([":objects"] + decl_tokens(decl))
    init = [":init"] + [list(a) for a in pr["facts"]] + [["=", list(k), v] for k, v in pr["fluents"]]
    t.append(init)
    t.append([":goal", ["and"] + [list(g) for g in pr["goal_lits"]] + [list(c) for c in pr["goal_conds"]]])
    return t
