"""C18 - renaming an action's parameters does not change what the action does.

Oracle: alpha-renaming of the source AST.  After Action.change_signature(map) the schema is read
back through public attributes and must equal the renamed source (canonical structure, else
behaviour); and the renamed library action must answer every (call, state) probe exactly like an
untouched twin parsed from the same text (applicability and serialized successor)."""
import json

from pv import ctx
from pv.gen import domains as G
from pv.harness import build_objects, build_state, lib_objects, parse_domain, read_lib_state, unjstate
from pv.lib import lib_call
from pv.props import c01, sem_common as S
from pv.ref import extract, pddl
from pv.runner import Res

ID = "C18"
RULE = ("generated fragment-F actions x injective renamings of their parameters (fresh names, swaps and cycles of the "
        "existing names, chains ?a->?b->?c->fresh, mixtures; the map listing the parameters in their own or (40 %) another order) x actions as parsed or (40 %) with literals over the same parameters re-made by Predicate.copy(), renamed fresh from the parser or (40 %) after having been grounded and printed (30 % of those: a deep copy taken then), in one call or (25 %) in two through intermediate names x probes (call, state).  Non-trivial = the map's new "
        "names overlap the old ones and the action has >= 2 parameters and a binary atom or function term over "
        "parameters.  Distinct by (action, map).")
ASSUMPTIONS = ["maps cover the action's parameters only (as the repository's callers do); constants and quantified "
               "variables keep their names",
               "new names never collide with a quantified variable of the action"]

F_K8 = "K8-effects-not-renamed"


def rename(x, m):
    if isinstance(x, str):
        return m.get(x, x)
    return [rename(y, m) for y in x]


def rename_action(a, m):
    return {"name": a["name"], "params": [[m.get(p, p), t] for p, t in a["params"]],
            "pre": rename(a["pre"], m) if a["pre"] else a["pre"], "eff": rename(a["eff"], m),
            "group_params": a.get("group_params", False)}


def overlap(m):
    return bool(set(m.values()) & set(m.keys()) - {k for k, v in m.items() if k == v})


def share_predicates(action):
    """Rebuilds the action the way API users do: literals over the same (name, parameters) are made with
    Predicate.copy() from the first one.  Returns the number of literals replaced."""
    from pddl_plus_parser.models import Precondition, Predicate
    firsts, n = {}, [0]

    def twin(p):
        if type(p) is not Predicate:
            return p
        key = (p.name, tuple(p.signature))
        if key not in firsts:
            firsts[key] = p
            return p
        n[0] += 1
        f = firsts[key]
        return f.copy(is_negated=(f.is_positive != p.is_positive))

    def cond(c):
        for o in list(c.operands):
            if isinstance(o, Precondition):
                cond(o)
            elif type(o) is Predicate:
                t = twin(o)
                if t is not o:
                    c.operands.remove(o)
                    c.operands.add(t)
    cond(action.preconditions.root)
    action.discrete_effects = {twin(p) for p in sorted(action.discrete_effects, key=str)}
    for ce in list(action.conditional_effects) + [c for u in action.universal_effects for c in u.conditional_effects]:
        cond(ce.antecedents.root)
        ce.discrete_effects = {twin(p) for p in sorted(ce.discrete_effects, key=str)}
    return n[0]


def check_case(case):
    from pddl_plus_parser.models import Operator
    res = Res()
    dom, objects = case["dom"], case["objects"]
    pddl.validate_domain(dom, objects)
    pddl.validate_probes(dom, objects, case["probes"])
    a = dom["actions"][0]
    m = {k: v for k, v in case["rename"]}
    pnames = [p for p, _ in a["params"]]
    if set(m) != set(pnames) or len(set(m.values())) != len(m) or any(not v.startswith("?") for v in m.values()):
        raise pddl.Invalid("rename map must be a total injective map on the parameters")
    used_q = {x[1][0] for f in (a["pre"] or [], a["eff"]) for x in pddl.walk(f) if x and x[0] == "forall"}
    if used_q & set(m.values()):
        raise pddl.Invalid("new name collides with a quantified variable")
    ok1, d1 = parse_domain(dom, S.layout_of(case))
    ok2, d2 = parse_domain(dom, S.layout_of(case))
    if not (ok1 and ok2):
        res.skipped = "domain-parse-error(C01)"
        return res
    world = pddl.World(dom, objects)
    info = {"action": a, "map": case["rename"]}
    renamed = d1.actions[a["name"]]
    if case.get("use_first"):
        # the schema is used (grounded, printed, its names read) before it is renamed; optionally a deep copy taken
        # after that use is the one renamed
        import copy
        from pddl_plus_parser.models import Operator as _Op
        warm_objs = lib_objects(d1, build_objects(d1, objects))
        for pr in case["probes"][:2]:
            if pr["action"] == a["name"]:
                lib_call(lambda: _Op(renamed, d1, list(pr["args"]), warm_objs).ground())
        lib_call(lambda: (list(renamed.parameter_names), str(renamed), renamed.to_pddl() if hasattr(renamed, "to_pddl") else None))
        if case.get("rename_copy"):
            okc, cp = lib_call(copy.deepcopy, renamed)
            if okc:
                renamed = cp
                d1.actions[a["name"]] = cp
    shared = 0
    if case.get("share"):
        oks, shared = lib_call(share_predicates, renamed)
        if not oks:
            raise RuntimeError(f"share_predicates failed: {shared!r}")
    if case.get("two_step"):
        # the same renaming done in two steps through intermediate names (?m0, ?m1, ...): a schema can be renamed again
        mid = {k: f"?m{i}" for i, (k, _) in enumerate(case["rename"])}
        okr, err = lib_call(renamed.change_signature, dict(mid))
        if okr:
            okr, err = lib_call(renamed.change_signature, {mid[k]: v for k, v in case["rename"]})
    else:
        okr, err = lib_call(renamed.change_signature, dict(m))   # insertion order of the map = order of case["rename"]
    binary = any(x and isinstance(x[0], str) and x[0] not in c01.KEYWORDS and sum(1 for t in x[1:] if isinstance(t, str) and t in pnames) >= 2
                 for f in (a["pre"] or [], a["eff"]) for x in pddl.walk(f))
    reordered = [k for k, _ in case["rename"]] != pnames
    res.classes = [("overlap" if overlap(m) else "fresh") + ("+binary" if binary else "") + ("+map-reordered" if reordered else "")
                   + ("+shared-literals" if shared else "") + ("+used-first" if case.get("use_first") else "") + ("+two-step" if case.get("two_step") else "")]
    res.nontrivial = overlap(m) and len(pnames) >= 2 and binary
    res.key = json.dumps([a, case["rename"]], sort_keys=True)
    if not okr:
        res.bad(f"C18/rename/exception:{err.key}", {**info, "error": repr(err)})
        return res
    exp = rename_action(a, m)
    # (1) structure of the renamed schema
    okx, xa = lib_call(extract.x_action, renamed)
    if not okx:
        res.bad(f"C18/readback/exception:{xa.key}", {**info, "error": repr(xa)})
        return res
    params, x_pre, x_eff = xa
    if params != [list(p) for p in exp["params"]]:
        res.bad("C18/signature", {**info, "expected": exp["params"], "got": params})
    same_pre = c01.canon_cond(c01.as_and(exp["pre"] or ["and"])) == c01.canon_cond(x_pre)
    same_eff = c01.canon_eff(exp["eff"]) == c01.canon_eff(x_eff)
    if not (same_pre and same_eff):
        why = c01.behaviour_differs(world, exp["params"], exp["pre"] or ["and"], exp["eff"], x_pre, x_eff,
                                    case["probes"] + c01.derived_probes(case, dom, objects), a["name"])
        if why and why != "undecided":
            part = why if why in ("pre", "eff") else ("pre" if not same_pre else "eff")
            res.bad(f"C18/schema/{part}-not-alpha-equivalent",
                    {**info, "expected": exp["pre"] if part == "pre" else exp["eff"], "read_back": x_pre if part == "pre" else x_eff})
    # (2) behaviour: renamed action versus an untouched twin, positional calls
    objs1 = lib_objects(d1, build_objects(d1, objects))
    objs2 = lib_objects(d2, build_objects(d2, objects))
    n = 0
    for pr in case["probes"]:
        if pr["action"] != a["name"]:
            continue
        st = unjstate(pr["state"])

        def run(domain, objs):
            state = build_state(domain, world, st)
            op = Operator(domain.actions[a["name"]], domain, list(pr["args"]), objs)
            app = op.is_applicable(state)
            succ = read_lib_state(op.apply(state, allow_inapplicable_actions=True)) if app else None
            return app, succ
        env = {p: o for (p, _), o in zip(a["params"], pr["args"])}
        try:   # probes outside C03's quantifier (conflicting / undefined effects) have no defined successor
            pddl.holds(a["pre"] or [], env, st, world)
            pddl.successor(a["eff"], env, st, world)
            # where nested condition groups are (wrongly, known finding K3) treated as true the firing
            # effects may conflict and the twin comparison would depend on hash order: excluded too
            pddl.successor(S.k3_effect(a["eff"]), env, st, world)
        except (pddl.Undefined, pddl.Ambiguous, pddl.Conflict) as e:
            res.skips.append(type(e).__name__)
            continue
        r1 = lib_call(run, d1, objs1)
        r2 = lib_call(run, d2, objs2)
        n += 1
        if not r2[0]:
            continue   # the original itself fails on this probe: C02/C03's business
        if not r1[0]:
            res.bad(f"C18/behaviour/exception:{r1[1].key}", {**info, "probe": pr, "error": repr(r1[1])})
            break
        (app1, s1), (app2, s2) = r1[1], r2[1]
        if app1 != app2:
            res.bad("C18/behaviour/applicability-differs", {**info, "probe": pr, "renamed": app1, "original": app2})
            break
        if app1 and not pddl.states_equal(s1, s2):
            res.bad("C18/behaviour/successor-differs", {**info, "probe": pr, "diff(original,renamed)": pddl.state_diff(s2, s1)})
            break
    res.evals = 1 + n
    return res


def gen_map(ch, pnames):
    kind = ch.weighted([(2, "fresh"), (4, "perm"), (3, "chain"), (3, "mixed")])
    n = len(pnames)
    fresh = [f"?n{i}" for i in range(n)]
    if kind == "fresh" or n == 0:
        return [[p, fresh[i]] for i, p in enumerate(pnames)]
    if kind == "perm":
        order = ch.perm(n)
        return [[p, pnames[order[i]]] for i, p in enumerate(pnames)]
    if kind == "chain":
        # ?a->?b, ?b->?c, last -> fresh
        sh = ch.shuffle(pnames)
        m = {sh[i]: sh[i + 1] for i in range(n - 1)}
        m[sh[-1]] = fresh[0]
        return [[p, m[p]] for p in pnames]
    pool = ch.shuffle(pnames + fresh)[:n]
    return [[p, pool[i]] for i, p in enumerate(pnames)]


def gen(ch, tier):
    ft = G.feats(max_actions=1, max_params=3, p_long_number=0.1, long_decimals=6)
    for _ in range(4):
        case = S.gen_sem_case(ch, tier, ft, n_probes=5, same_action=True)
        if len(case["dom"]["actions"][0]["params"]) >= 2:
            break
    a = case["dom"]["actions"][0]
    case["rename"] = gen_map(ch, [p for p, _ in a["params"]])
    if ch.flag(0.4):
        case["rename"] = ch.shuffle(case["rename"])      # the map lists the parameters in another order
    case["share"] = ch.flag(0.4)
    case["use_first"] = ch.flag(0.4)
    case["two_step"] = ch.flag(0.25)
    case["rename_copy"] = ch.flag(0.3)
    return case


def plan(tier):
    if tier == "quick":
        return {"streams": {"main": 9600}, "shards": 16}
    return {"streams": {"main": 80000}, "shards": 16}
