"""C11 - the S-expression reader returns the text's parenthesis structure, all of it.

Oracle: pv.ref.sexpr.read (independent character-level reader).  For every generated text the
library's PDDLTokenizer (string mode and file mode) must return exactly the reference value, or
raise when the reference rejects (unbalanced parentheses, text after the top-level form)."""
import itertools

from pv import ctx
from pv.lib import lib_call, write_tmp
from pv.ref import sexpr
from pv.runner import Res

ID = "C11"
RULE = ("token trees (exhaustive up to a node bound over tokens a/B/?x, random beyond with PDDL's token "
        "alphabet) rendered with generated separators (space, tab, LF, CRLF, comments at line end / own line / "
        "between tokens, single physical lines of 5 - 100 KiB, generated comment text incl. control and non-ASCII characters, optional gaps next to parentheses) and letter-case modes, read from string and from "
        "file; plus every single parenthesis deletion/insertion and trailing text.  Non-trivial = the tree "
        "has depth >= 2 and the text uses >= 2 distinct separators, or the text is a malformed variant. "
        "Distinct by (text, mode).")
ASSUMPTIONS = ["tokens are ASCII plus a few non-ASCII letters (lower-cased with str.lower); blanks are space, tab, CR, LF; a comment runs to the next LF and may hold any character but LF / lone CR",
               "a bare top-level token (no parentheses) is not generated: the statement speaks of parenthesised tokens"]

F_TRAILING = "C11-trailing-text"
TOKS = ["a", "B", "?x"]
# a few non-ASCII letters: lower-casing leaves \u00df, \u00b5 and \u017f alone (case folding would not)
ALPHA = "abcxyzABCXYZ0123456789-_?:=<>+*/." + "\u00df\u00c9\u00b5\u017f" + "#!%&@$^~,'\"[]{}|`\\#"   # ('#t' is PDDL+'s time token)
# comment text: anything but a line end (LF; a lone CR is a line end for text files, so it is left out too)
COMMENT_ALPHA = ("abcXYZ019 \t()();;:-_?'\"#|\\.,=" + "\x0b\x0c\x1c\x1d\x1e\x1f\x00\x7f\x85\xa0\u2028\u2029\u00e9\u3000")


# ---- the check -------------------------------------------------------------------------------

def _first_form(text):
    """Defect model of the known finding: the library reads the first complete expression (a
    balanced form, or a bare token) and ignores whatever follows, including an unmatched ')'."""
    toks = sexpr.tokenize(text)
    if not toks or toks[0] == ")":
        return None
    if toks[0] != "(":
        return toks[0]
    depth = 0
    for i, t in enumerate(toks):
        if t == "(":
            depth += 1
        elif t == ")":
            depth -= 1
            if depth == 0:
                try:
                    return sexpr.read(" ".join(toks[: i + 1]))
                except sexpr.Reject:
                    return None
    return None


def _lib_read(text, mode):
    from pddl_plus_parser.lisp_parsers import PDDLTokenizer
    if mode == "str":
        return lib_call(lambda: PDDLTokenizer(pddl_str=text).parse())
    # one working path per process: before the text, a decoy of exactly the same length (one letter changed) is
    # written there and read - what a file holds now is what counts, not what it held a moment ago
    from pv.lib import tmpdir
    p = tmpdir() / "working_copy.pddl"
    i = next((k for k, ch_ in enumerate(text) if ch_.isascii() and ch_.isalpha()), None)
    if i is not None:
        decoy = text[:i] + ("b" if text[i].lower() != "b" else "c") + text[i + 1:]
        with open(p, "w", encoding="utf-8", newline="") as fh:
            fh.write(decoy)
        lib_call(lambda: PDDLTokenizer(file_path=p).parse())
    with open(p, "w", encoding="utf-8", newline="") as fh:
        fh.write(text)
    return lib_call(lambda: PDDLTokenizer(file_path=p).parse())


def _lone_cr_in_comment(text):
    """A CR not followed by LF inside a comment: text files end the line (and the comment) there, strings do
    not; the statement does not say which, so such texts are outside the check."""
    in_comment = False
    for i, c in enumerate(text):
        if c == "\n":
            in_comment = False
        elif c == ";":
            in_comment = True
        elif c == "\r" and in_comment and text[i + 1:i + 2] != "\n":
            return True
    return False


def check_case(case):
    res = Res()
    text = case["text"]
    if _lone_cr_in_comment(text):
        res.skipped = "lone-CR-inside-comment(out of scope)"
        return res
    try:
        exp = sexpr.read(text)
        rejected = None
    except sexpr.Reject as e:
        exp, rejected = None, str(e)
    if "tree" in case and case["tree"] is not None and exp != case["tree"]:
        raise AssertionError(f"reference reader disagrees with the generator: {text!r}")
    if rejected == "does not start with (" and len(sexpr.tokenize(text)) == 1:
        res.skipped = "bare-top-level-token(out of scope)"
        return res
    seps = case.get("nsep", 0)
    res.nontrivial = bool(rejected) or (case.get("depth", 0) >= 2 and seps >= 2)
    res.classes.append("malformed" if rejected else "valid")
    res.key = case["mode"] + "\x00" + text
    for mode in (["str", "file"] if case["mode"] == "both" else [case["mode"]]):
        ok, val = _lib_read(text, mode)
        if rejected:
            if not ok:
                continue
            if ctx.active(F_TRAILING) and len(sexpr.tokenize(text)) > 1 and val == _first_form(text):
                res.known.append(F_TRAILING)
                continue
            res.bad(f"C11/{mode}/accepts-malformed:{rejected}", {"text": text, "returned": val})
        else:
            if not ok:
                res.bad(f"C11/{mode}/exception:{val.key}", {"text": text, "error": repr(val)})
            elif val != exp:
                res.bad(f"C11/{mode}/value-mismatch", {"text": text, "expected": exp, "returned": val})
    return res


# ---- generation --------------------------------------------------------------------------------

def _depth(t):
    return 0 if isinstance(t, str) else 1 + max([_depth(x) for x in t], default=0)


def gen_tree(ch, max_nodes, toks=None, depth=0):
    """A list node with up to max_nodes nodes underneath."""
    items = []
    budget = max_nodes
    while budget > 0 and ch.flag(0.8):
        if depth < 6 and budget >= 1 and ch.flag(0.3):
            sub_budget = ch.int(0, budget - 1)
            items.append(gen_tree(ch, sub_budget, toks, depth + 1))
            budget -= 1 + sub_budget
        else:
            if toks:
                items.append(ch.choice(toks))
            else:
                n = ch.int(1, 6)
                items.append("".join(ch.choice(ALPHA) for _ in range(n)))
            budget -= 1
    return items


def _mk(text, tree, mode, nsep=0, depth=None):
    return {"text": text, "tree": tree, "mode": mode, "nsep": nsep,
            "depth": _depth(tree) if depth is None and tree is not None else (depth or 0)}


def _count_seps(layout_choices):
    return len(set(layout_choices))


def gen_long_line(ch):
    """One physical line far beyond the usual buffer sizes (4 KiB, 8 KiB, 64 KiB): many tokens separated by
    single blanks, or a short form followed by a very long comment."""
    toks = ["".join(ch.choice(ALPHA[:33]) for _ in range(ch.int(1, 12))) for _ in range(40)]
    n = ch.choice([900, 1500, 2500, 12000])
    items, depth_open = [], 0
    tree = []
    stack = [tree]
    for i in range(n):
        r = ch.int(0, 19)
        if r == 0 and len(stack) < 6:
            new = []
            stack[-1].append(new)
            stack.append(new)
        elif r == 1 and len(stack) > 1:
            stack.pop()
        else:
            stack[-1].append(toks[ch.int(0, 39)])
    if ch.flag(0.3):
        small = ["define", ["domain", "d"], toks[0]]
        text = "(define (domain d) " + toks[0] + ") ;" + " ".join(toks[ch.int(0, 39)] for _ in range(n)) + "\n"
        return _mk(text, sexpr.read(sexpr.flat(small)), ch.choice(["both", "file"]), 3, 2)
    text = sexpr.flat(tree)
    return _mk(text, sexpr.read(text), ch.choice(["both", "file"]), 2, 2)


def gen(ch, tier):
    big = tier == "thorough"
    if ch.flag(0.004):
        return gen_long_line(ch)
    tree = gen_tree(ch, ch.int(1, 40 if big else 25))
    nchoices = ch.int(0, 60)
    choices = [ch.int(0, 64) for _ in range(nchoices)]
    lay = sexpr.Layout(choices, ch.int(0, 3))

    def comment():
        return ";" + "".join(ch.choice(COMMENT_ALPHA) for _ in range(ch.int(0, 14))) + ch.choice(["\n", "\n", "\r\n"])
    if ch.flag(0.5):
        mand = sexpr.SEPS + [" " + comment(), "\n" + comment() + "\t", comment(), comment() + comment()]
        opt = sexpr.OPTIONAL_GAP + [comment(), " " + comment()]
        text = sexpr.render(tree, lay, mand, opt)
    else:
        text = sexpr.render(tree, lay)
    mode = ch.choice(["both", "str", "file"])
    kind = ch.weighted([(5, "valid"), (2, "del"), (2, "ins"), (2, "tail")])
    lower_tree = sexpr.read(sexpr.flat(tree))
    if kind == "valid":
        return _mk(text, lower_tree, mode, _count_seps(choices))
    if kind == "tail":
        tail = ch.choice([")", " )", "\n(c d)", " x", "\n\n( )", " ) )", "\t(", " ;c\n)"])
        return _mk(text + tail, None, mode, depth=_depth(tree))
    idx = [i for i, c in enumerate(text) if c in "()"]
    # positions inside comments are not structural: decide by the reference, not by the mutation
    if kind == "del":
        i = ch.choice(idx)
        return _mk(text[:i] + text[i + 1:], None, mode, depth=_depth(tree))
    i = ch.int(0, len(text))
    return _mk(text[:i] + ch.choice(["(", ")"]) + text[i:], None, mode, depth=_depth(tree))


# ---- bounded exhaustive --------------------------------------------------------------------------

def forests(k):
    """All sequences of items (token or list) with exactly k nodes in total."""
    if k == 0:
        yield []
        return
    for s in range(1, k + 1):
        firsts = list(TOKS) if s == 1 else []
        firsts += [f for f in forests(s - 1)]  # a list node of size s = 1 + forest(s-1)
        for rest in forests(k - s):
            for f in firsts:
                yield [f] + rest


def all_trees(max_nodes):
    for k in range(0, max_nodes):
        yield from forests(k)


def _gaps(tree):
    """Render with explicit gap slots: returns (pieces, kinds) where kinds[i] in {'m','o'}."""
    pieces, kinds = [], []

    def emit(x):
        pieces.append("(")
        prev_tok = False
        for y in x:
            kinds.append("m" if (prev_tok and isinstance(y, str)) else "o")
            pieces.append(None)
            if isinstance(y, str):
                pieces.append(y)
                prev_tok = True
            else:
                emit(y)
                prev_tok = False
        kinds.append("o")
        pieces.append(None)
        pieces.append(")")

    emit(tree)
    return pieces, kinds


MAND = [" ", "\t", "\n", "\r\n", " ;c\n", "\n;c (\n", "  "]
OPT = [""] + MAND


def _fill(pieces, fills):
    it = iter(fills)
    return "".join(p if p is not None else next(it) for p in pieces)


def chunk_cases(tier, chunk):
    max_nodes, part, nparts = chunk
    for n, tree in enumerate(all_trees(max_nodes)):
        if n % nparts != part:
            continue
        lower = sexpr.read(sexpr.flat(tree))
        pieces, kinds = _gaps(tree)
        base = [" " if k == "m" else "" for k in kinds]
        d = _depth(tree)
        # all gaps equal
        for sep in MAND:
            yield _mk(_fill(pieces, [sep] * len(kinds)), lower, "both", 1, d)
        # single-gap substitutions
        for i, k in enumerate(kinds):
            for sep in (MAND if k == "m" else OPT):
                fills = list(base)
                fills[i] = sep
                yield _mk(_fill(pieces, fills), lower, "both", 2 if sep not in (" ", "") else 1, d)
        # letter case
        canon = _fill(pieces, base)
        yield _mk(canon.upper(), lower, "both", 1, d)
        # malformed: every single paren deletion / insertion, and tails
        for i, c in enumerate(canon):
            if c in "()":
                yield _mk(canon[:i] + canon[i + 1:], None, "both", depth=d)
        for i in range(len(canon) + 1):
            for p in "()":
                yield _mk(canon[:i] + p + canon[i:], None, "both", depth=d)
        for tail in [")", " (c d)", " x", "\n()", " ;c\n )"]:
            yield _mk(canon + tail, None, "both", depth=d)


def plan(tier):
    if tier == "quick":
        return {"exhaustive": [(5, i, 16) for i in range(16)], "streams": {"main": 16000}, "shards": 16,
                "exhaustive_is_complete": True,
                "exhaustive_note": "all token trees with <= 4 nodes below the root over {a,B,?x} x all-gaps-equal, "
                                   "single-gap substitutions, upper case, single paren deletion/insertion, tails"}
    return {"exhaustive": [(6, i, 64) for i in range(64)], "streams": {"main": 320000}, "shards": 16,
            "fuzz": [{"script": "pv/fuzz/tokenizer_fuzz.py", "runs": 150000, "shards": 4, "corpus": None},
                     {"script": "pv/fuzz/tokenizer_fuzz.py", "runs": 50000, "shards": 2, "corpus": "pv/fuzz/corpus_c11"}],
            "exhaustive_is_complete": True,
            "exhaustive_note": "as quick with <= 5 nodes below the root"}


def corpus():
    yield "tab-in-string", _mk("(a\tb)", ["a", "b"], "both", 2, 1)
    yield "crlf", _mk("(a\r\n(b ;c\r\n c))", ["a", ["b", "c"]], "both", 2, 2)
    yield "comment-paren", _mk("(a ; ) (\n b)", ["a", "b"], "both", 2, 1)
    yield "upper", _mk("(DEFINE (Domain X))", ["define", ["domain", "x"]], "both", 1, 2)
    yield "unbalanced-open", _mk("((a b)", None, "both")
