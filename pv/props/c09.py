"""C09 - exporting a problem and parsing it back preserves it.

Oracle: round trip.  text -> ProblemParser -> p1 -> ProblemExporter -> text2 -> ProblemParser -> p2;
p2 must equal p1 and the generating AST (name, objects and types, facts, fluent values exactly, goal
literals, goal conditions), empty sections stay empty.  Shipped problem files are round-tripped too."""
import glob
import json
import os

from pv import ctx
from pv.gen import domains as G, problems as P
from pv.harness import parse_domain
from pv.lib import lib_call, parse_domain_text, parse_problem_text, write_tmp
from pv.props import c01, c05
from pv.ref import pddl, sexpr
from pv.runner import Res

ID = "C09"
RULE = ("valid problem ASTs over generated domains (see C05: object list styles, subtype objects, constants, repeated "
        "arguments, 0-ary atoms, arbitrary numerals, numeric goals with constants on the exporter's 1e-4 grid, empty "
        "sections) and every problem file shipped under tests/ that parses against a shipped domain of the same "
        "name.  Non-trivial = the problem has a fluent, a goal condition, a repeated or constant argument, or an "
        "empty section.  Distinct by problem text.")
ASSUMPTIONS = ["goal-condition constants are representable at the exporter's 4 decimals",
               "fluents of arity >= 3 with a repeated object are excluded (finding K2-ternary-repeat)"]

REPO = os.environ.get("PV_REPO", "/repo")


def roundtrip(domain, p1, via_file):
    from pddl_plus_parser.exporters import ProblemExporter
    if via_file:
        # exported to one working path that is re-used for every problem of the process, and read back from that
        # path; a decoy of exactly the same length (the problem name reversed) is written and parsed there first
        import re
        from pathlib import Path
        from pddl_plus_parser.lisp_parsers import ProblemParser
        from pv.lib import tmpdir
        path = Path(tmpdir()) / "exported_problem.pddl"
        ProblemExporter().export_problem(p1, path)
        text2 = open(path).read()
        m = re.search(r"\(problem\s+([^\s()]+)", text2)
        if m and len(m.group(1)) >= 2:
            name = m.group(1)
            other = name[::-1] if name[::-1] != name else name[:-1] + ("b" if name[-1] != "b" else "c")
            with open(path, "w") as fh:
                fh.write(text2[:m.start(1)] + other + text2[m.end(1):])
            lib_call(lambda: ProblemParser(path, domain).parse_problem())
            with open(path, "w") as fh:
                fh.write(text2)
        return text2, ProblemParser(path, domain).parse_problem()
    text2 = ProblemExporter().extract_problem(p1)
    return text2, parse_problem_text(text2, domain)


def diff_problems(a, b):
    d = []
    for k in ("name", "objects"):
        if a[k] != b[k]:
            d.append((k, a[k], b[k]))
    if sorted(set(a["facts"])) != sorted(set(b["facts"])):
        d.append(("facts", sorted(set(a["facts"])), sorted(set(b["facts"]))))
    if sorted(a["fluents"]) != sorted(b["fluents"]):
        d.append(("fluents", sorted(a["fluents"]), sorted(b["fluents"])))
    if sorted(set(a["goal_lits"])) != sorted(set(b["goal_lits"])):
        d.append(("goal-literals", sorted(set(a["goal_lits"])), sorted(set(b["goal_lits"]))))
    ca = c01.usort(c01.canon_cond(c) for c in a["goal_conds"])
    cb = c01.usort(c01.canon_cond(c) for c in b["goal_conds"])
    if ca != cb:
        d.append(("goal-conditions", ca, cb))
    return d


def has_function_repeat(pr):
    for c in pr["goal_conds"]:
        for x in pddl.walk(c[1:]):
            if x and all(isinstance(y, str) for y in x) and x[0] not in pddl.NUM_OPS and not pddl.is_number(x[0]) and len(set(x[1:])) < len(x) - 1:
                return True
    return False


def check_case(case):
    res = Res()
    if case.get("kind") == "file":
        return check_file(case, res)
    dom, pr = case["dom"], case["problem"]
    pddl.validate_domain(dom, [])
    if c05.problem_errors(dom, pr, dom["name"]):
        raise pddl.Invalid("problem must be valid")
    if case.get("corrupt"):
        raise pddl.Invalid("C09 takes valid problems only")
    keys = [tuple(k) for k, _ in pr["fluents"]]
    if len(set(keys)) != len(keys):
        raise pddl.Invalid("fluent assigned twice")
    if c05.has_ternary_repeat(pr) and ctx.active(c05.F_TERN):
        res.known.append(c05.F_TERN)
        res.skipped = "ternary-repeat(known finding)"
        return res
    ok, domain = parse_domain(dom)
    if not ok:
        res.skipped = "domain-parse-error(C01)"
        return res
    text = sexpr.flat(P.problem_tree(dom, pr))
    okp, p1 = lib_call(parse_problem_text, text, domain)
    if not okp:
        res.skipped = "problem-parse-error(C05)"
        return res
    empties = [k for k in ("objects", "facts", "fluents", "goal_lits", "goal_conds") if not pr[k]]
    consts = {n for n, _ in dom["constants"]}
    rep = any(len(set(t[1:])) < len(t) - 1 for t in pr["facts"] + [k for k, _ in pr["fluents"]])
    con = any(a in consts for t in pr["facts"] + [k for k, _ in pr["fluents"]] for a in t[1:])
    res.classes = sorted({"fluents" if pr["fluents"] else "", "goal-conditions" if pr["goal_conds"] else "",
                          "repeated-arg" if rep else "", "constant-arg" if con else "",
                          "empty-section" if empties else ""} - {""}) or ["plain"]
    res.nontrivial = res.classes != ["plain"]
    res.key = text
    info = {"problem": text, "domain": sexpr.flat(pddl.domain_tree(dom))}
    r1 = c05.read_problem(p1)
    n = 0
    for via_file in (False, True):
        okx, out = lib_call(roundtrip, domain, p1, via_file)
        n += 1
        if not okx:
            if has_function_repeat(pr) and ctx.active("K2-function-repeat"):
                res.known.append("K2-function-repeat")
                continue
            res.bad(f"C09/roundtrip/exception:{out.key}", {**info, "error": repr(out)})
            break
        text2, p2 = out
        try:
            sexpr.read(text2)
        except sexpr.Reject as e:
            res.bad("C09/export/unbalanced-text", {**info, "exported": text2, "error": str(e)})
            break
        r2 = c05.read_problem(p2)
        diffs = diff_problems(r1, r2)
        if diffs and has_function_repeat(pr) and ctx.active("K2-function-repeat") and all(w == "goal-conditions" for w, _, _ in diffs):
            res.known.append("K2-function-repeat")
            continue
        for what, a, b in diffs:
            res.bad(f"C09/roundtrip/{what}", {**info, "exported": text2, "first_parse": a, "second_parse": b})
        # against the AST as well (the first parse is C05's business; here only what survived both)
        for what, exp, g in c05.compare(pr, r2):
            if what == "KNOWN":
                res.known.append(exp)
            elif not any(w == what for w, _, _ in diffs):
                res.bad(f"C09/ast/{what}", {**info, "exported": text2, "expected": exp, "got": g})
        if res.disc:
            break
    res.evals = n
    return res


# ---- shipped files -------------------------------------------------------------------------------------

def shipped_pairs():
    """[(domain_path, problem_path)] for problems whose (:domain X) matches a domain file nearby."""
    doms, probs = {}, []
    for path in sorted(glob.glob(os.path.join(REPO, "tests", "**", "*.pddl"), recursive=True)):
        try:
            tree = sexpr.read(open(path, encoding="utf-8", errors="ignore").read())
        except (sexpr.Reject, OSError):
            continue
        if len(tree) > 1 and isinstance(tree[1], list) and tree[1] and tree[1][0] == "domain":
            doms.setdefault((os.path.dirname(path), tree[1][1]), path)
        elif len(tree) > 2 and isinstance(tree[1], list) and tree[1] and tree[1][0] == "problem":
            dn = [x[1] for x in tree[2:] if isinstance(x, list) and x and x[0] == ":domain"]
            if dn:
                probs.append((path, dn[0]))
    out = []
    for path, dn in probs:
        d = doms.get((os.path.dirname(path), dn))
        if d is None:
            cands = [p for (dd, n), p in doms.items() if n == dn]
            d = cands[0] if cands else None
        if d:
            out.append((os.path.relpath(d, REPO), os.path.relpath(path, REPO)))
    return out


def check_file(case, res):
    from pddl_plus_parser.lisp_parsers import DomainParser, ProblemParser
    from pathlib import Path
    dpath, ppath = os.path.join(REPO, case["domain_file"]), os.path.join(REPO, case["problem_file"])
    okd, domain = lib_call(lambda: DomainParser(Path(dpath)).parse_domain())
    if not okd:
        res.skipped = "shipped-domain-does-not-parse"
        return res
    okp, p1 = lib_call(lambda: ProblemParser(Path(ppath), domain).parse_problem())
    if not okp:
        res.skipped = "shipped-problem-does-not-parse"
        return res
    res.classes = ["shipped-file"]
    res.nontrivial = True
    res.key = case["problem_file"]
    okx, out = lib_call(roundtrip, domain, p1, True)
    if not okx:
        res.bad(f"C09/file-roundtrip/exception:{out.key}", {**case, "error": repr(out)})
        return res
    text2, p2 = out
    for what, a, b in diff_problems(c05.read_problem(p1), c05.read_problem(p2)):
        res.bad(f"C09/file-roundtrip/{what}", {**case, "first_parse": str(a)[:600], "second_parse": str(b)[:600]})
    return res


def chunk_cases(tier, chunk):
    part, nparts = chunk
    for i, (d, p) in enumerate(shipped_pairs()):
        if i % nparts == part:
            yield {"kind": "file", "domain_file": d, "problem_file": p}


def gen(ch, tier):
    ft = G.feats(max_actions=1, when=False, forall_eff=False, nested=False, forall_pre=False, max_arity=3,
                 typed=not ch.flag(0.15))
    dom, _ = G.gen_domain(ch, ft)
    k = ch.weighted([(6, "normal"), (1, "empty-init"), (1, "empty-goal"), (1, "empty-all")])
    pr = P.gen_problem(ch, dom, ternary_repeat=not ctx.active(c05.F_TERN))
    if k in ("empty-init", "empty-all"):
        pr["facts"], pr["fluents"] = [], []
    if k in ("empty-goal", "empty-all"):
        pr["goal_lits"], pr["goal_conds"] = [], []
    if k == "empty-all" and ch.flag(0.5):
        pr["objects"], pr["object_decl"] = [], []
    return {"dom": dom, "problem": pr}


def plan(tier):
    n = 4000 if tier == "quick" else 80000
    return {"exhaustive": [(i, 16) for i in range(16)], "streams": {"main": n}, "shards": 16,
            "exhaustive_is_complete": True, "exhaustive_note": "every (domain, problem) file pair shipped under tests/"}
