"""C12 - numeric expressions evaluate as arithmetic; comparisons use the stated tolerance.

Oracle: exact rational arithmetic on the float inputs the library receives.  Routes: the direct
API (construct_expression_tree / set_expression_value / calculate / evaluate_expression) and
end-to-end through one-condition / one-effect actions (applicability answer, successor value).
Configurations (EPSILON, NUMERIC_PRECISION) run in separate interpreters."""
import itertools
import json
import os
from fractions import Fraction

from pv.harness import build_objects, build_state, lib_objects, parse_domain, read_lib_state
from pv.lib import lib_call
from pv.ref import extract, pddl, sexpr
from pv.runner import Res

ID = "C12"
RULE = ("expression trees of depth <= 4 over + - * / with constants and 0/1/2-ary fluents x valuations on a rational "
        "grid (exhaustive for all trees with <= 2 operators over {(f ?x),(g),2,0.5} x valuations in {-2,-0.5,0,1,3}^2; "
        "random beyond), evaluated through the direct API and through one-condition / one-effect actions; comparison "
        "pairs placed 0, 0.5, 1 and 2 tolerances apart at magnitudes 1, 1e3, 1e6 (both signs, both directions) for "
        "= <= >= < >; assign/increase/decrease; to_pddl(d), d in 0..6, re-read by the library.  Configurations: "
        "EPSILON in {default 1e-4, 2^-13, 0.01}, NUMERIC_PRECISION in {unset, 6, 2}.  Non-trivial = the tree contains "
        "'-' or '/' with a non-leaf right operand, or the compared pair is within 2 tolerances.  Distinct by case.")
ASSUMPTIONS = ["comparison pairs are single fluents / constants, so the only float operation is an exact subtraction; "
               "comparisons of computed expressions closer than 1e-7 (relative) to the boundary are skipped",
               "division by zero is excluded"]
CONFIGS = {
    "default": {},
    "dyadic-eps": {"EPSILON": "0.0001220703125", "NUMERIC_PRECISION": "6"},
    "coarse": {"EPSILON": "0.01", "NUMERIC_PRECISION": "2"},
    "exponent-notation": {"EPSILON": "2.5e-3"},            # the settings are floats: any text float() reads
}
CONFIGS_THOROUGH = dict(CONFIGS, **{"tiny-eps": {"EPSILON": "1E-6", "NUMERIC_PRECISION": "8"},
                                    "signed": {"EPSILON": "+0.001", "NUMERIC_PRECISION": "3"}})

EPS = Fraction(float(os.environ.get("EPSILON", 0.0001)))
DIGITS = int(os.environ.get("NUMERIC_PRECISION", 4))

DOM = {"name": "d", "typed": True, "types": [["t", "object"]], "constants": [["k", "t"]],
       "predicates": [["r", []]],
       "functions": [["f", [["?a", "t"]]], ["g", []], ["h", [["?a", "t"], ["?b", "t"]]]],
       "actions": []}
OBJECTS = [["a", "t"], ["b", "t"]]
PARAMS = [["?x", "t"], ["?y", "t"]]
ARGS = ["a", "b"]
ENV = {"?x": "a", "?y": "b"}


def F(x):
    return Fraction(float(Fraction(x)))


def make_state(vals):
    """vals: dict fluent-key-string -> number string.  Values are the floats the library will see."""
    keys = [("f", "a"), ("f", "b"), ("g",), ("h", "a", "b"), ("h", "b", "a"), ("h", "a", "a"), ("h", "b", "b"),
            # ... and over the domain constant k
            ("f", "k"), ("h", "k", "a"), ("h", "a", "k"), ("h", "k", "b"), ("h", "b", "k")]
    fl = {}
    for k in keys:
        v = vals.get(" ".join(k), "0")
        fl[k] = F(v)
    return frozenset(), fl


def floatify(e):
    """Numeric tokens replaced by the exact value of the float the library parses them to."""
    if isinstance(e, str):
        if pddl.is_number(e):
            fr = F(e)
            return str(fr.numerator) if fr.denominator == 1 else f"{fr.numerator}/{fr.denominator}"
        return e
    return [floatify(x) for x in e]


def direct_value(domain, expr_grounded, state):
    """Direct API on a grounded expression AST."""
    from pddl_plus_parser.models import construct_expression_tree, calculate
    from pddl_plus_parser.models.numerical_expression import set_expression_value
    tree = construct_expression_tree(expr_grounded, domain.functions)
    set_expression_value(tree, state.state_fluents)
    return calculate(tree)


def direct_compare(domain, cond_grounded, state):
    from pddl_plus_parser.models import construct_expression_tree, evaluate_expression
    from pddl_plus_parser.models.numerical_expression import set_expression_value
    tree = construct_expression_tree(cond_grounded, domain.functions)
    set_expression_value(tree, state.state_fluents)
    return evaluate_expression(tree)


def action_domain(pre, eff):
    dom = dict(DOM)
    dom["actions"] = [{"name": "act", "params": PARAMS, "pre": pre, "eff": eff}]
    return dom


def close(a, b):
    return abs(Fraction(a) - Fraction(b)) <= Fraction(1, 10 ** 9) * max(1, abs(Fraction(a)))


def nontrivial_tree(e):
    for x in pddl.walk(e):
        if x and x[0] in ("-", "/") and len(x) == 3 and isinstance(x[2], list) and x[2][0] in pddl.NUM_OPS:
            return True
    return False


def check_case(case):
    from pddl_plus_parser.models import Operator
    res = Res()
    kind = case["kind"]
    st = make_state(case.get("vals", {}))
    world = pddl.World(DOM, OBJECTS)
    res.classes = [kind]
    res.key = json.dumps(case, sort_keys=True) + os.environ.get("PV_CONFIG", "")
    if kind == "eval":
        e = case["expr"]
        validate_expr(e)
        try:
            # (on the floats the library parses the constants to: g - 0.00005 is exactly zero when g holds that float)
            exp, mag = pddl.ev_mag(floatify(e), ENV, st)
        except pddl.Undefined:
            res.skipped = "division-by-zero"
            return res
        if pddl.float_unsafe(exp, mag):
            res.skipped = "cancellation-beyond-float-precision"     # the exact value is not reproducible in doubles
            return res
        res.nontrivial = nontrivial_tree(e)
        info = {"expr": e, "vals": case.get("vals"), "expected": float(exp)}
        ok, domain = parse_domain(DOM)
        state = build_state(domain, world, st)
        okv, got = lib_call(direct_value, domain, pddl.substitute(e, ENV), state)
        if not okv:
            res.bad(f"C12/direct/exception:{got.key}", {**info, "error": repr(got)})
        elif not close(exp, got):
            res.bad("C12/direct/value", {**info, "got": got})
        # end to end: (assign (g) e) and (>= e c)/(< e c) with c half a unit below / above
        dom = action_domain(["and"], ["and", ["assign", ["g"], e]])
        okd, d2 = parse_domain(dom)
        if not okd:
            res.bad(f"C12/action/parse-exception:{d2.key}", {**info, "error": repr(d2)})
            return res
        objs = lib_objects(d2, build_objects(d2, OBJECTS))
        oka, succ = lib_call(lambda: read_lib_state(Operator(d2.actions["act"], d2, ARGS, objs).apply(build_state(d2, world, st))))
        if not oka:
            res.bad(f"C12/action/apply-exception:{succ.key}", {**info, "error": repr(succ)})
        elif not close(exp, succ[1].get(("g",), 10 ** 9)):
            res.bad("C12/action/assigned-value", {**info, "got": float(succ[1].get(("g",), 10 ** 9))})
        # evaluation reads the *current* state only: an operator that evaluated this state before gives, on a state
        # lacking one of the fluents, what a fresh operator gives there (whatever the library's rule for a missing
        # fluent is)
        used = sorted(k for k in st[1] if any(tuple(pddl.substitute(x, ENV)) == k for x in pddl.walk(e) if x and x[0] not in pddl.NUM_OPS))
        if used and oka:
            part = (st[0], {k: v for k, v in st[1].items() if k != used[0]})

            def twice():
                op = Operator(d2.actions["act"], d2, ARGS, objs)
                op.apply(build_state(d2, world, st))
                return read_lib_state(op.apply(build_state(d2, world, part)))[1].get(("g",))
            r_used = lib_call(twice)
            r_fresh = lib_call(lambda: read_lib_state(Operator(d2.actions["act"], d2, ARGS, objs).apply(build_state(d2, world, part)))[1].get(("g",)))
            same = (r_used[0] == r_fresh[0]) and (not r_used[0] or r_used[1] == r_fresh[1] or
                                                  (r_used[1] is not None and r_fresh[1] is not None and close(r_used[1], r_fresh[1])))
            if not same:
                res.bad("C12/action/value-depends-on-an-earlier-evaluation",
                        {**info, "missing_fluent": list(used[0]), "used_operator": repr(r_used[1])[:80], "fresh_operator": repr(r_fresh[1])[:80]})
        lo, hi = pddl.fmt_value(F(float(exp) - 0.5)), pddl.fmt_value(F(float(exp) + 0.5))
        # (half a unit must be far above the float resolution at this magnitude for the four comparisons to be decidable)
        for cond, want in () if abs(exp) > 10 ** 9 else ((["and", [">=", e, lo]], True), (["and", ["<", e, lo]], False), (["and", ["<=", e, hi]], True), (["and", [">", e, hi]], False)):
            okd, d3 = parse_domain(action_domain(cond, ["and", ["r"]]))
            if not okd:
                res.bad(f"C12/action/parse-exception:{d3.key}", {**info, "cond": cond, "error": repr(d3)})
                break
            o3 = lib_objects(d3, build_objects(d3, OBJECTS))
            okq, ans = lib_call(lambda: Operator(d3.actions["act"], d3, ARGS, o3).is_applicable(build_state(d3, world, st)))
            if not okq:
                res.bad(f"C12/action/applicable-exception:{ans.key}", {**info, "cond": cond, "error": repr(ans)})
                break
            if ans != want:
                res.bad("C12/action/comparison-of-expression", {**info, "cond": cond, "got": ans})
                break
        res.evals = 6
        return res
    if kind == "cmp":
        op, lhs, rhs = case["op"], case["lhs"], case["rhs"]
        if op not in pddl.CMP_OPS:
            raise pddl.Invalid("op")
        cond = [op, lhs, rhs]
        validate_expr(lhs)
        validate_expr(rhs)
        if isinstance(lhs, str):
            raise pddl.Invalid("first operand must be a fluent")
        a, b = pddl.ev(floatify(lhs), ENV, st), pddl.ev(floatify(rhs), ENV, st)
        exp = pddl.compare(op, a, b, EPS, strict_boundary=True)
        d = abs(a - b)
        res.nontrivial = d <= 2 * EPS
        res.classes = [f"cmp:{op}:" + ("0" if d == 0 else "<eps" if d < EPS else "=eps" if d == EPS else "<=2eps" if d <= 2 * EPS else "far")]
        info = {"cond": cond, "vals": case.get("vals"), "lhs": float(a), "rhs": float(b), "eps": float(EPS), "expected": exp}
        ok, domain = parse_domain(DOM)
        state = build_state(domain, world, st)
        okv, got = lib_call(direct_compare, domain, pddl.substitute(cond, ENV), state)
        if not okv:
            res.bad(f"C12/cmp-direct/exception:{got.key}", {**info, "error": repr(got)})
        elif got != exp:
            res.bad(f"C12/cmp-direct/{op}/" + ("holds-beyond-tolerance" if got else "fails-within-tolerance"), {**info, "got": got})
        okd, d3 = parse_domain(action_domain(["and", cond], ["and", ["r"]]))
        if not okd:
            res.bad(f"C12/cmp-action/parse-exception:{d3.key}", {**info, "error": repr(d3)})
            return res
        o3 = lib_objects(d3, build_objects(d3, OBJECTS))
        okq, ans = lib_call(lambda: Operator(d3.actions["act"], d3, ARGS, o3).is_applicable(build_state(d3, world, st)))
        if not okq:
            res.bad(f"C12/cmp-action/exception:{ans.key}", {**info, "error": repr(ans)})
        elif ans != exp:
            res.bad(f"C12/cmp-action/{op}/" + ("holds-beyond-tolerance" if ans else "fails-within-tolerance"), {**info, "got": ans})
        res.evals = 2
        return res
    if kind == "assign":
        aop, target, e = case["aop"], case["target"], case["expr"]
        if aop not in pddl.ASSIGN_OPS:
            raise pddl.Invalid("aop")
        validate_expr(target)
        validate_expr(e)
        if isinstance(target, str) or target[0] in pddl.NUM_OPS:
            raise pddl.Invalid("target must be a fluent")
        try:
            exp = pddl.successor(["and", [aop, target, floatify(e)]], ENV, st, world)
        except pddl.Undefined:
            res.skipped = "division-by-zero"
            return res
        res.nontrivial = True
        info = {"effect": [aop, target, e], "vals": case.get("vals")}
        okd, d2 = parse_domain(action_domain(["and"], ["and", [aop, target, e]]))
        if not okd:
            res.bad(f"C12/assign/parse-exception:{d2.key}", {**info, "error": repr(d2)})
            return res
        objs = lib_objects(d2, build_objects(d2, OBJECTS))
        oka, succ = lib_call(lambda: read_lib_state(Operator(d2.actions["act"], d2, ARGS, objs).apply(build_state(d2, world, st))))
        if not oka:
            res.bad(f"C12/assign/exception:{succ.key}", {**info, "error": repr(succ)})
        elif not pddl.states_equal(exp, succ):
            res.bad(f"C12/assign/{aop}", {**info, "diff": pddl.state_diff(exp, succ)})
        return res
    if kind == "print":
        e, d = case["expr"], case["digits"]
        validate_expr(e)
        if isinstance(e, str):
            raise pddl.Invalid("expression must be a tree")
        res.nontrivial = nontrivial_tree(e) or any(isinstance(x, str) and "." in x for x in flatten(e))
        info = {"expr": e, "digits": d}
        from pddl_plus_parser.lisp_parsers import PDDLTokenizer
        from pddl_plus_parser.models import NumericalExpressionTree, construct_expression_tree
        ok, domain = parse_domain(DOM)
        root = [">=", e, "0"]

        def run():
            tree = NumericalExpressionTree(construct_expression_tree(root, domain.functions))
            text = tree.to_pddl(d) if d is not None else tree.to_pddl()
            again = construct_expression_tree(PDDLTokenizer(pddl_str=text).parse(), domain.functions)
            return text, extract.x_expr(again)
        okr, out = lib_call(run)
        if not okr:
            res.bad(f"C12/print/exception:{out.key}", {**info, "error": repr(out)})
            return res
        text, back = out
        dd = d if d is not None else DIGITS
        why = compare_printed(root, back, dd)
        if why:
            res.bad(f"C12/print/{why}", {**info, "text": text, "read_back": back})
            return res
        # value preserved when every constant is representable at d decimals
        if all(representable(x, dd) for x in flatten(e) if pddl.is_number(x)):
            try:
                v1, v2 = pddl.ev(e, ENV, st), pddl.ev(back[1], ENV, st)
                if not close(v1, v2):
                    res.bad("C12/print/value-changed", {**info, "text": text, "before": float(v1), "after": float(v2)})
            except pddl.Undefined:
                pass
        return res
    raise pddl.Invalid("kind")


def flatten(e):
    if isinstance(e, str):
        yield e
    else:
        for x in e:
            yield from flatten(x)


def representable(tok, d):
    v = Fraction(tok)
    return (v * 10 ** d).denominator == 1


def compare_printed(src, back, d):
    """Structure equal; constants within half a unit of the last printed decimal."""
    if isinstance(src, str):
        if not isinstance(back, str) or not pddl.is_number(src) or not pddl.is_number(back):
            return "structure"
        if abs(Fraction(src) - Fraction(back)) > Fraction(1, 2 * 10 ** d) + Fraction(1, 10 ** 12):
            return "constant-not-rounded-at-requested-digits"
        return None
    if isinstance(back, str) or len(src) != len(back):
        return "structure"
    if src[0] in pddl.NUM_OPS or src[0] in pddl.CMP_OPS:
        if back[0] != src[0]:
            return "operator"
        for a, b in zip(src[1:], back[1:]):
            w = compare_printed(a, b, d)
            if w:
                return w
        return None
    return None if list(src) == list(back) else "function-term"


def validate_expr(e):
    if isinstance(e, str):
        if not pddl.is_number(e):
            raise pddl.Invalid("number")
        return
    if not isinstance(e, list) or not e:
        raise pddl.Invalid("expr")
    if e[0] in pddl.NUM_OPS:
        if len(e) != 3:
            raise pddl.Invalid("binary")
        validate_expr(e[1])
        validate_expr(e[2])
        return
    sig = {"f": 1, "g": 0, "h": 2}
    if e[0] not in sig or len(e) - 1 != sig[e[0]] or any(t not in ("?x", "?y", "k") for t in e[1:]) or len(set(e[1:])) != len(e) - 1:
        raise pddl.Invalid("function term")


# ---- generation ----------------------------------------------------------------------------------------
GRID = [str(Fraction(k, 4)) for k in range(-32, 33)]
FTERMS = [["f", "?x"], ["f", "?y"], ["g"], ["h", "?x", "?y"], ["h", "?y", "?x"]]
CONSTS = ["0", "1", "2", "0.5", "-1", "3", "1.5", "0.25", "10", "-2.5", "0.125", "100", "0.3333", "2.71828",
          # non-zero values inside the comparison tolerance: arithmetic is exact arithmetic, the tolerance belongs to comparisons only
          "0.00005", "-0.00002", "0.005"]


def gen_expr(ch, depth):
    k = ch.weighted([(3, "f"), (2, "n"), (5 if depth > 0 else 0, "op")])
    if k == "f":
        return list(ch.choice(FTERMS))
    if k == "n":
        return ch.choice(CONSTS)
    return [ch.choice(["+", "-", "*", "/", "-", "/"]), gen_expr(ch, depth - 1), gen_expr(ch, depth - 1)]


def with_constant(case, side):
    """One function term of the case's expression names the domain constant k, before or after a parameter; the
    fluents over k get values of their own."""
    terms = [x for x in pddl.walk(case["expr"]) if x and x[0] in ("f", "h")]
    if not terms:
        return case
    x = side.choice(terms)
    if x[0] == "f":
        x[:] = ["f", "k"]
    else:
        x[:] = side.choice([["h", "k", x[2]], ["h", x[1], "k"], ["h", "k", x[1]]])
    pool = ["7", "-3", "0.5", "12", "-0.75", "2", "40", "1.25"]
    for key in ("f k", "h k a", "h a k", "h k b", "h b k"):
        case["vals"][key] = side.choice(pool)
    return case


def gen_vals(ch):
    def v():
        if ch.flag(0.06):
            return ch.choice(["0.00005", "-0.00003", "0.004", "0.0000001"])       # tiny but not zero
        fr = Fraction(ch.choice(GRID))
        return str(float(fr))
    return {"f a": v(), "f b": v(), "g": v(), "h a b": v(), "h b a": v()}


def gen(ch, tier):
    kind = ch.weighted([(4, "eval"), (4, "cmp"), (2, "assign"), (3, "print")])
    if kind == "eval":
        e = gen_expr(ch, 4)
        if isinstance(e, str):
            e = ["+", e, ["g"]]
        case = {"kind": "eval", "expr": e, "vals": gen_vals(ch)}
        side = ch.side("constant-term")
        return with_constant(case, side) if side.flag(0.25) else case
    if kind == "cmp":
        eps = float(EPS)
        mag = ch.choice([1.0, 1000.0, 1000000.0, 0.0, 37.25])
        sign = ch.choice([1, -1])
        x = sign * mag + ch.choice([0.0, 0.5, 0.001])
        mult = ch.choice([0, 0.5, 1, 2, 1.0000001, 0.9999999, 10, 3])
        y = x + ch.choice([1, -1]) * mult * eps
        op = ch.choice(["=", "<=", ">=", "<", ">"])
        vals = gen_vals(ch)
        vals["g"], vals["f a"] = repr(x), repr(y)
        form = ch.choice(["fluent-fluent", "fluent-const"])
        if form == "fluent-fluent":
            lhs, rhs = (["g"], ["f", "?x"]) if ch.flag(0.5) else (["f", "?x"], ["g"])
        else:
            lhs, rhs = ["g"], repr(y)
        return {"kind": "cmp", "op": op, "lhs": lhs, "rhs": rhs, "vals": vals}
    if kind == "assign":
        case = {"kind": "assign", "aop": ch.choice(list(pddl.ASSIGN_OPS)), "target": list(ch.choice(FTERMS)),
                "expr": gen_expr(ch, 2), "vals": gen_vals(ch)}
        side = ch.side("constant-term")
        return with_constant(case, side) if side.flag(0.25) and not isinstance(case["expr"], str) else case
    e = gen_expr(ch, 3)
    if isinstance(e, str):
        e = ["*", e, ["g"]]
    # finer constants for the print check
    if ch.flag(0.5):
        e = ["+", e, ch.choice(["0.123456", "3.14159265", "-0.000049", "0.99995", "12.5", "1e-3", "2.5",
                                # whole and fractional constants with more than six significant digits
                                "1234567", "2147483647", "86400123", "1000001", "-9876543", "1234567.125", "123456.7891"])]
    return {"kind": "print", "expr": e, "digits": ch.choice([0, 1, 2, 3, 4, 5, 6, None]), "vals": gen_vals(ch)}


def small_trees():
    leaves = [["f", "?x"], ["g"], "2", "0.5"]
    t0 = list(leaves)
    t1 = [[op, a, b] for op in pddl.NUM_OPS for a in t0 for b in t0]
    t2 = [[op, a, b] for op in pddl.NUM_OPS for a in t1 for b in t0] + [[op, a, b] for op in pddl.NUM_OPS for a in t0 for b in t1]
    return t1 + t2


def chunk_cases(tier, chunk):
    part, nparts, stride = chunk
    vals = ["-2", "-0.5", "0", "1", "3"]
    n = 0
    for e in small_trees():
        for va, vg in itertools.product(vals, repeat=2):
            n += 1
            if n % nparts != part or (n // nparts) % stride:
                continue
            yield {"kind": "eval", "expr": e, "vals": {"f a": va, "g": vg}}
    # comparison grid: all operators x separations x magnitudes x signs x directions
    eps = float(EPS)
    for op in pddl.CMP_OPS:
        for mag in (1.0, 1000.0, 1000000.0):
            for sign in (1, -1):
                for mult in (0, 0.5, 1, 2):
                    for dirn in (1, -1):
                        n += 1
                        if n % nparts != part:
                            continue
                        x = sign * mag
                        y = x + dirn * mult * eps
                        yield {"kind": "cmp", "op": op, "lhs": ["g"], "rhs": ["f", "?x"], "vals": {"g": repr(x), "f a": repr(y)}}
                        yield {"kind": "cmp", "op": op, "lhs": ["g"], "rhs": repr(y), "vals": {"g": repr(x)}}


def plan(tier):
    if tier == "quick":
        return {"exhaustive": [(i, 5, 8) for i in range(5)], "streams": {"main": 2400}, "shards": 5,
                "exhaustive_is_complete": False,
                "exhaustive_note": "1/8 stride of all trees with <= 2 operators over {(f ?x),(g),2,0.5} x {-2,-0.5,0,1,3}^2, plus the full comparison grid (5 ops x 3 magnitudes x 2 signs x 4 separations x 2 directions x 2 forms), in each configuration"}
    return {"exhaustive": [(i, 5, 1) for i in range(5)], "streams": {"main": 40000}, "shards": 5,
            "exhaustive_is_complete": True,
            "exhaustive_note": "all trees with <= 2 operators over {(f ?x),(g),2,0.5} x {-2,-0.5,0,1,3}^2 and the full comparison grid, in each configuration"}
