"""C17 - combining agent domains/problems yields their union and disturbs nothing else.

Oracle: the full generated domain / problem of which the per-agent files are overlapping, closed
fragments.  The combined Domain / Problem must equal the union (plus the dummy action and predicate
when requested), for every discovery order of the files (imposed by wrapping Path.glob), the exported
combination must re-parse to the same thing, and Domain().types as well as previously parsed domains
must be unchanged by the combination."""
import json
import os
from pathlib import Path

from pv import ctx
from pv.gen import domains as G, problems as P
from pv.harness import domain_text, parse_domain
from pv.lib import lib_call, fresh_dir, parse_domain_text, parse_problem_text
from pv.props import c01, c05, c07, c08, c09
from pv.ref import extract, pddl, sexpr
from pv.runner import Res

ID = "C17"
RULE = ("generated full domain + problem split into 1-4 overlapping per-agent files (each closed under the names it "
        "uses: types with ancestors, constants, predicates, functions; problem objects of the facts it lists), written "
        "to a fresh directory; every discovery order up to 24 permutations; optional dummy actions; (half of the cases) files of another instance with prefix-related names (domain10-*, problem10-*, domainx) lying in the directory; one converter object per call or (half of the cases) one object for the whole history, first used with the other dummy setting over a directory holding one more agent file; an unrelated typed "
        "and an untyped domain parsed before and after.  Non-trivial = >= 2 files with a non-empty overlap.  Distinct "
        "by (full domain, split).")
ASSUMPTIONS = ["all agent files declare the same domain name and agree on the declarations they share",
               "numeric conditions inside nested / when positions are simplifier-stable (finding K5)"]


def used_names(action):
    names = set()
    for f in (action.get("pre") or [], action["eff"]):
        for x in pddl.walk(f):
            if x and isinstance(x[0], str) and x[0] not in c01.KEYWORDS:
                names.add(x[0])
    return names


REQS = [[":adl"], [":adl", ":fluents"], [":typing", ":strips"], [":strips", ":equality", ":typing", ":fluents", ":conditional-effects"],
        [":factored-privacy", ":adl"]]


def fragment(dom, action_names, extra_names, extra_types=(), extra_consts=()):
    """Sub-domain closed under what the chosen actions use."""
    acts = [a for a in dom["actions"] if a["name"] in action_names]
    names = set(extra_names)
    for a in acts:
        names |= used_names(a)
    preds = [p for p in dom["predicates"] if p[0] in names]
    funcs = [f for f in dom["functions"] if f[0] in names]
    T = pddl.Types(dom["types"])
    tn = set()
    consts_used = {t for a in acts for f in (a.get("pre") or [], a["eff"]) for x in pddl.walk(f) for t in x[1:] if isinstance(t, str)}
    consts = [c for c in dom["constants"] if c[0] in consts_used or c[0] in set(extra_consts)]
    tn |= set(extra_types)
    for _, sig in preds + funcs:
        tn |= {t for _, t in sig}
    for a in acts:
        tn |= {t for _, t in a["params"]}
        for f in (a.get("pre") or [], a["eff"]):
            for x in pddl.walk(f):
                if x and x[0] == "forall":
                    tn.add(x[1][2])
    tn |= {t for _, t in consts}
    closed = set()
    for t in tn:
        closed |= set(T.ancestors(t))
    closed.discard("object")
    types = [p for p in dom["types"] if p[0] in closed]
    return {"name": dom["name"], "typed": True, "types": types, "constants": consts, "predicates": preds,
            "functions": funcs, "actions": acts}


def split_problem(pr, dom, assignment, n):
    """assignment: list (per item index) of agent index lists."""
    items = [("facts", f) for f in pr["facts"]] + [("fluents", f) for f in pr["fluents"]] + \
            [("goal_lits", g) for g in pr["goal_lits"]] + [("goal_conds", c) for c in pr["goal_conds"]]
    consts = {c for c, _ in dom["constants"]}
    objt = dict((n_, t) for n_, t in pr["objects"])
    out = [{"name": pr["name"], "objects": [], "object_decl": None, "facts": [], "fluents": [], "goal_lits": [], "goal_conds": []}
           for _ in range(n)]
    for (kind, item), agents in zip(items, assignment):
        for ag in agents:
            out[ag % n][kind].append(item)
    for ag in range(n):
        used = set()
        for kind in ("facts", "fluents", "goal_lits", "goal_conds"):
            for item in out[ag][kind]:
                for t in _tokens(item):
                    if t in objt:
                        used.add(t)
        out[ag]["objects"] = [[o, objt[o]] for o, _ in pr["objects"] if o in used]
    # every object lives in at least one file
    placed = {o for p in out for o, _ in p["objects"]}
    for i, (o, t) in enumerate(pr["objects"]):
        if o not in placed:
            out[i % n]["objects"].append([o, t])
    return out


def _tokens(x):
    if isinstance(x, str):
        yield x
    else:
        for y in x:
            yield from _tokens(y)


class GlobOrder:
    """Wraps Path.glob so that discovered files come back in a chosen order."""

    def __init__(self, perm):
        self.perm = perm

    def __enter__(self):
        self.orig = Path.glob
        perm = self.perm
        orig = self.orig

        def glob(self_path, pattern, *a, **kw):
            items = sorted(orig(self_path, pattern, *a, **kw))
            idx = [i for i in perm if i < len(items)] + [i for i in range(len(items)) if i not in perm]
            return iter([items[i] for i in idx])
        Path.glob = glob
        return self

    def __exit__(self, *exc):
        Path.glob = self.orig


def perms(n, ints, limit):
    import itertools
    allp = list(itertools.permutations(range(n)))
    if len(allp) <= limit:
        return allp
    step = max(1, len(allp) // limit)
    off = (ints[0] if ints else 0) % step
    return allp[off::step][:limit]


def check_case(case):
    from pddl_plus_parser.multi_agent import MultiAgentDomainsConverter, MultiAgentProblemsConverter
    from pddl_plus_parser.models import Domain
    res = Res()
    c07.reset_globals()
    dom, pr = case["dom"], case["problem"]
    pddl.validate_domain(dom, pr["objects"])
    if c05.problem_errors(dom, pr, dom["name"]):
        raise pddl.Invalid("problem must be valid")
    if c08.rich_numeric_in_groups(dom):
        raise pddl.Invalid("K5 trigger")
    n = len(case["agents"])
    if not (1 <= n <= 4):
        raise pddl.Invalid("1-4 agents")
    anames = {a["name"] for a in dom["actions"]}
    frags = []
    for ag in case["agents"]:
        if not set(ag["actions"]) <= anames:
            raise pddl.Invalid("unknown action")
        frags.append(fragment(dom, set(ag["actions"]), set(ag["extra"]), ag.get("types", []), ag.get("consts", [])))
    covered = set().union(*[set(ag["actions"]) for ag in case["agents"]]) if case["agents"] else set()
    # the union of the fragments is the expected combination
    union_names = set()
    for f in frags:
        union_names |= {p[0] for p in f["predicates"]} | {p[0] for p in f["functions"]}
    # every agent file spells its requirements in its own legitimate way (:adl implies :typing, ...)
    for f_, r_ in zip(frags, case.get("reqs") or []):
        if r_ is not None:
            f_["requirements"] = REQS[r_ % len(REQS)]
    expected = fragment(dom, covered, union_names)
    exp_types = set()
    for f in frags:
        exp_types |= {t for t, _ in f["types"]}
    expected["types"] = [p for p in dom["types"] if p[0] in exp_types]
    expected["constants"] = [c for c in dom["constants"] if any(c in f["constants"] for f in frags)]
    expected["predicates"] = [p for p in dom["predicates"] if any(p in f["predicates"] for f in frags)]
    expected["functions"] = [p for p in dom["functions"] if any(p in f["functions"] for f in frags)]
    nitems = len(pr["facts"]) + len(pr["fluents"]) + len(pr["goal_lits"]) + len(pr["goal_conds"])
    if len(case["assignment"]) != nitems or any(not a for a in case["assignment"]):
        raise pddl.Invalid("every problem item must be listed by at least one agent")
    if any(not (set(ag["actions"]) | set(ag["extra"])) for ag in case["agents"]) and False:
        raise pddl.Invalid("empty agent")
    parts = split_problem(pr, dom, case["assignment"], n)
    for part_, frag_ in zip(parts, frags):
        if c05.problem_errors(frag_, part_, dom["name"]):
            raise pddl.Invalid("agent problem is not closed under its agent domain")
    overlap = n >= 2 and any(set(a["actions"]) & set(b["actions"]) or
                             ({p[0] for p in fa["predicates"]} & {p[0] for p in fb["predicates"]})
                             for i, (a, fa) in enumerate(zip(case["agents"], frags)) for b, fb in list(zip(case["agents"], frags))[i + 1:])
    res.nontrivial = overlap
    res.classes = [f"agents{n}" + ("+overlap" if overlap else "") + ("+dummy" if case.get("dummy") else "")]
    res.key = json.dumps([dom, case["agents"], case["assignment"]], sort_keys=True)
    info = {"full_domain": sexpr.flat(pddl.domain_tree(dom)), "agents": case["agents"]}
    # an unrelated typed and an untyped domain parsed before the combination
    other_typed = {"name": "other", "typed": True, "types": [["zz", "object"]], "constants": [], "predicates": [["pz", [["?a", "zz"]]]],
                   "functions": [], "actions": [{"name": "az", "params": [["?x", "zz"]], "pre": ["and"], "eff": ["and", ["pz", "?x"]]}]}
    other_untyped = {"name": "plain", "typed": False, "types": [], "constants": [], "predicates": [["pu", [["?a", "object"]]]],
                     "functions": [], "actions": [{"name": "au", "params": [["?x", "object"]], "pre": ["and"], "eff": ["and", ["pu", "?x"]]}]}
    okb1, before1 = parse_domain(other_typed)
    okb2, before2 = parse_domain(other_untyped)
    dig_before = (c07.digest_domain(before1), c07.digest_domain(before2), c07.digest_globals())
    d = fresh_dir()
    for i, f in enumerate(frags):
        with open(d / f"domain-agent{i}.pddl", "w") as fh:
            fh.write(domain_text(f))
    for i, p in enumerate(parts):
        if case.get("dup_goal") and p["goal_lits"]:
            # a goal fact written twice in one agent's own file: the combination still lists it once
            p = dict(p, goal_lits=list(p["goal_lits"]) + [list(p["goal_lits"][0])])
        if case.get("obj_decl") is not None:
            # the agent's object list written in a drawn legal way (grouped, bare names of the root type at the end
            # of the public list, a :private block)
            from pv.chooser import RChooser
            p = dict(p, object_decl=P.object_decl(RChooser(f"{case['obj_decl']}/{i}"), [list(o) for o in p["objects"]], True))
        with open(d / f"problem-agent{i}.pddl", "w") as fh:
            fh.write(sexpr.flat(P.problem_tree(dom, p)))
    if case.get("decoys"):
        # files of another instance whose names merely start alike: not part of this combination
        res.classes[0] += "+decoys"
        dd = dict(frags[0], predicates=frags[0]["predicates"] + [["decoy-pred", []]])
        with open(d / "domain10-agent0.pddl", "w") as fh:
            fh.write(domain_text(dd))
        with open(d / "domainx.pddl", "w") as fh:
            fh.write(domain_text(dd))
        if parts[0]["objects"]:
            dp = dict(parts[0], objects=parts[0]["objects"] + [["decoy-object", parts[0]["objects"][0][1]]])
            for name in ("problem10-agent0.pddl", "problemx.pddl"):
                with open(d / name, "w") as fh:
                    fh.write(sexpr.flat(P.problem_tree(dom, dp)))
    dummy = bool(case.get("dummy"))
    exp_vocab = c01.expected_vocab(expected)
    if dummy:
        exp_vocab["predicates"]["dummy-additional-predicate"] = []
        exp_vocab["actions"]["dummy-add-predicate-action"] = [["?agent", "object"]]
        exp_vocab["actions"]["dummy-del-predicate-action"] = [["?agent", "object"]]
    first_vocab = None
    first_prob = None
    nperm = 0
    # converter objects: one per call, or (reuse) one for the whole history, warmed up by a combination with the
    # other dummy setting over a directory that held one more agent file at the time
    reuse = bool(case.get("reuse"))
    shared_dc = MultiAgentDomainsConverter(d)
    shared_pc = MultiAgentProblemsConverter(d, "problem")
    dconv = (lambda: shared_dc) if reuse else (lambda: MultiAgentDomainsConverter(d))
    pconv = (lambda: shared_pc) if reuse else (lambda: MultiAgentProblemsConverter(d, "problem"))
    warm = warm_digest = None
    if reuse:
        res.classes[0] += "+reuse"
        extra = dict(other_typed, name=dom["name"])
        with open(d / "domain-zextra.pddl", "w") as fh:
            fh.write(domain_text(extra))
        okw, warm = lib_call(shared_dc.locate_domains, not dummy)
        os.unlink(d / "domain-zextra.pddl")
        if not okw:
            res.bad(f"C17/combine-domains/exception:{warm.key}", {**info, "error": repr(warm), "call": "warm-up"})
            return res
        warm_digest = c07.digest_domain(warm)
    for perm in perms(n, case.get("perm") or [0], 6 if n > 2 else 24):
        nperm += 1
        with GlobOrder(list(perm)):
            okc, comb = lib_call(dconv().locate_domains, dummy)
        if not okc:
            res.bad(f"C17/combine-domains/exception:{comb.key}", {**info, "order": list(perm), "error": repr(comb)})
            return res
        okv, got = lib_call(extract.x_vocab, comb)
        if not okv:
            res.bad(f"C17/combined-domain/unreadable:{got.key}", {**info, "error": repr(got)})
            return res
        diffs = []
        if c01.type_closure(exp_vocab["types"]) != c01.type_closure(got["types"]):
            diffs.append(("types", exp_vocab["types"], got["types"]))
        for k in ("constants", "predicates", "functions", "actions"):
            if exp_vocab[k] != got[k]:
                diffs.append((k, exp_vocab[k], got[k]))
        for what, e, g in diffs:
            res.bad(f"C17/combined-domain/{what}-not-the-union", {**info, "order": list(perm), "expected": e, "got": g})
        if res.disc:
            return res
        # behaviour of the combined actions = the full domain's
        world = pddl.World(dom, pr["objects"])
        for a in expected["actions"]:
            for part, detail in c01.compare_action(world, a, comb.actions[a["name"]], c01.derived_probes({"dom": dom}, dom, pr["objects"], 8)):
                if part == "UNDECIDED":
                    continue
                res.bad(f"C17/combined-domain/action-{part}", {**info, "action": a["name"], "detail": detail})
        if res.disc:
            return res
        if first_vocab is None:
            first_vocab = got
        # export + re-parse + problems
        out_dir = fresh_dir()
        with GlobOrder(list(perm)):
            okx, path = lib_call(dconv().export_combined_domain, dummy, out_dir)
        if not okx:
            res.bad(f"C17/export-combined-domain/exception:{path.key}", {**info, "error": repr(path)})
            return res
        okp, re_dom = lib_call(parse_domain_text, open(path).read())
        if not okp:
            res.bad(f"C17/exported-domain-does-not-parse:{re_dom.key}", {**info, "error": repr(re_dom), "exported": open(path).read()[:1500]})
            return res
        for what, detail in c08.vocab_equal(comb, re_dom):
            res.bad(f"C17/exported-domain/{what}", {**info, "detail": detail})
        if res.disc:
            return res
        with GlobOrder(list(perm)):
            okq, cprob = lib_call(pconv().combine_problems, Path(path))
        if not okq:
            res.bad(f"C17/combine-problems/exception:{cprob.key}", {**info, "error": repr(cprob)})
            return res
        okr, gp = lib_call(c05.read_problem, cprob)
        if not okr:
            res.bad(f"C17/combined-problem/unreadable:{gp.key}", {**info, "error": repr(gp)})
            return res
        if len(gp["facts"]) != len(set(gp["facts"])) or len(gp["goal_lits"]) != len(set(gp["goal_lits"])):
            res.bad("C17/combined-problem/duplicates", {**info, "facts": gp["facts"], "goals": gp["goal_lits"]})
            return res
        for what, e, g in c05.compare(pr, gp):
            if what == "KNOWN":
                res.known.append(e)
            else:
                res.bad(f"C17/combined-problem/{what}-not-the-union", {**info, "order": list(perm), "expected": e, "got": g})
        if res.disc:
            return res
        # export the combined problem and read it back
        okz, out = lib_call(c09.roundtrip, re_dom, cprob, True)
        if okz:
            d2 = c09.diff_problems(gp, c05.read_problem(out[1]))
            if d2 and not (c09.has_function_repeat(pr) and ctx.active("K2-function-repeat")):
                res.bad(f"C17/exported-problem/{d2[0][0]}", {**info, "first": d2[0][1], "second": d2[0][2]})
                return res
        elif not (c09.has_function_repeat(pr) and ctx.active("K2-function-repeat")):
            res.bad(f"C17/export-combined-problem/exception:{out.key}", {**info, "error": repr(out)})
            return res
    if warm is not None and c07.digest_domain(warm) != warm_digest:
        res.bad("C17/earlier-combination-changed-by-later-calls", {**info, "before": warm_digest[:600], "after": c07.digest_domain(warm)[:600]})
    # nothing else was disturbed
    fresh_ok, fresh = lib_call(lambda: sorted(Domain().types))
    if not fresh_ok or fresh != ["object"]:
        res.bad("C17/leak/fresh-domain-types", {**info, "types": fresh if fresh_ok else repr(fresh)})
    dig_after = (c07.digest_domain(before1), c07.digest_domain(before2), c07.digest_globals())
    for name, b, a in zip(("typed-domain", "untyped-domain", "global-type-table"), dig_before, dig_after):
        if a != b:
            res.bad(f"C17/leak/{name}-changed", {**info, "before": b[:600], "after": a[:600]})
    oka2, after2 = parse_domain(other_untyped)
    if oka2 and c07.digest_domain(after2) != dig_before[1]:
        res.bad("C17/leak/later-parse-of-untyped-domain-differs", {**info, "before": dig_before[1][:600], "after": c07.digest_domain(after2)[:600]})
    res.evals = nperm
    return res


def gen(ch, tier):
    ft = G.feats(max_actions=4, division=False, rich_when_numeric=False, rich_nested_numeric=False, typed=True, typed_fixed=True,
                 max_leaves=2)
    dom, objects = G.gen_domain(ch, ft)
    pr = P.gen_problem(ch, dom, objects=objects, ternary_repeat=False)
    n = ch.int(1, 4)
    names = [a["name"] for a in dom["actions"]]
    allnames = [p[0] for p in dom["predicates"]] + [f[0] for f in dom["functions"]]
    agents = [{"actions": [], "extra": [x for x in allnames if ch.flag(0.3)]} for _ in range(n)]
    for a in names:
        owners = [i for i in range(n) if ch.flag(0.45)] or [ch.int(0, n - 1)]
        for i in owners:
            agents[i]["actions"].append(a)
    nitems = len(pr["facts"]) + len(pr["fluents"]) + len(pr["goal_lits"]) + len(pr["goal_conds"])
    assignment = [[i for i in range(n) if ch.flag(0.45)] or [ch.int(0, n - 1)] for _ in range(nitems)]
    # close every agent's files under what its problem items mention
    consts = {c for c, _ in dom["constants"]}
    for ag in agents:
        ag["types"], ag["consts"] = [], []
    parts = split_problem(pr, dom, assignment, n)
    for ag, part in zip(agents, parts):
        for kind in ("facts", "fluents", "goal_lits", "goal_conds"):
            for item in part[kind]:
                for x in pddl.walk(item if kind != "fluents" else item[0]):
                    if x and isinstance(x[0], str) and x[0] in allnames:
                        ag["extra"].append(x[0])
                for t in _tokens(item):
                    if t in consts:
                        ag["consts"].append(t)
        ag["types"] = sorted({t for _, t in part["objects"] if t != "object"})
        ag["extra"] = sorted(set(ag["extra"]))
        ag["consts"] = sorted(set(ag["consts"]))
    case = {"dom": dom, "problem": pr, "agents": agents, "assignment": assignment, "dummy": ch.flag(0.3), "reuse": ch.flag(0.5), "decoys": ch.flag(0.5), "dup_goal": ch.flag(0.3),
            "perm": [ch.int(0, 23)]}
    side = ch.side("obj-decl")
    if side.flag(0.5):
        case["obj_decl"] = side.int(0, 10 ** 6)
    side = ch.side("reqs")
    if side.flag(0.5):
        case["reqs"] = [side.int(0, len(REQS) - 1) if side.flag(0.6) else None for _ in range(n)]
    return case


def plan(tier):
    if tier == "quick":
        return {"streams": {"main": 480}, "shards": 16}
    return {"streams": {"main": 8000}, "shards": 16}
