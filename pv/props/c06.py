"""C06 - the subtype relation is the closure of the declared type tree, in any order.

Oracle: reflexive-transitive closure of the generated child-parent pairs with `object` on top.
Checked on is_sub_type for all ordered pairs, on the keys of domain.types, on the hierarchy graph,
and downstream: problem facts / fluents accepted exactly for conforming objects, constants of every
type, forall effects touching exactly the objects below the quantified type."""
import itertools

from pv.harness import build_objects, build_state, lib_objects, read_lib_state
from pv.lib import lib_call, parse_domain_text, parse_problem_text
from pv.ref import pddl, sexpr
from pv.runner import Res

ID = "C06"
RULE = ("type forests (every forest with <= N types and depth <= 4 exhaustively; random forests up to 8 types) each "
        "written under permutations and regroupings of its declaration lines: children of one parent merged or "
        "split, roots as trailing bare names / as 'r - object' / only mentioned as parents, children before "
        "parents; for every forest: is_sub_type on all pairs (also on copied types and on Domain.shallow_copy()), constants, unary and binary (also repeated-object) problem "
        "facts, fluents, single and paired forall effects over every type.  Non-trivial = some child is declared before its parent's own declaration, or depth >= 3.  "
        "Distinct by the declaration text.")
ASSUMPTIONS = ["type names are distinct from 'object'; a bare-name group can only be the last group of :types"]


def logical(decl):
    """declaration groups -> child->parent pairs (what the text means)."""
    pairs = []
    for children, parent in decl:
        for c in children:
            pairs.append([c, parent if parent is not None else "object"])
    return pairs


def child_before_parent(decl):
    declared_at = {}
    for i, (children, parent) in enumerate(decl):
        for c in children:
            declared_at.setdefault(c, i)
    for i, (children, parent) in enumerate(decl):
        if parent is not None and parent != "object" and declared_at.get(parent, -1) > i:
            return True
        if parent is not None and parent != "object" and parent not in declared_at:
            return True
    return False


def nxt(names, t):
    """The type after t in declaration order (cyclic): the partner type of the binary predicates / double sweeps."""
    return names[(names.index(t) + 1) % len(names)]


def build_domain(decl):
    pairs = logical(decl)
    T = pddl.Types(pairs)
    names = [n for n in T.names() if n != "object"]
    dom = {"name": "d", "typed": True, "types": pairs, "type_decl": decl,
           "constants": [[f"c-{t}", t] for t in names],
           "predicates": [[f"is-{t}", [["?a", t]]] for t in names] + [["mark", [["?a", "object"]]], ["isobj", [["?a", "object"]]],
                                                                     ["mark2", [["?a", "object"]]]] +
                         [[f"two-{t}", [["?a", t], ["?b", nxt(names, t)]]] for t in names],
           "functions": [[f"val-{t}", [["?a", t]]] for t in names],
           "actions": [{"name": f"sweep-{t}", "params": [], "pre": ["and"],
                        "eff": ["and", ["forall", ["?z", "-", t], ["when", ["and"], ["mark", "?z"]]]]} for t in names + ["object"]] +
                      # two quantified effects over different types in one action
                      [{"name": f"sweep2-{t}", "params": [], "pre": ["and"],
                        "eff": ["and", ["forall", ["?z", "-", t], ["when", ["and"], ["mark", "?z"]]],
                                ["forall", ["?w", "-", nxt(names, t)], ["when", ["and"], ["mark2", "?w"]]]]} for t in names] +
                      # the quantified variable is named like a parameter of another type: inside the effect the name
                      # is the quantified variable, which ranges over its own type
                      [{"name": f"shadow-{t}", "params": [["?z", nxt(names, t)]], "pre": ["and"],
                        "eff": ["and", ["forall", ["?z", "-", t], ["when", ["and"], ["mark", "?z"]]]]} for t in names]}
    objects = [[f"o-{t}", t] for t in names] + [["o-object", "object"]]
    return dom, objects, T, names


def check_case(case):
    res = Res()
    decl = case["decl"]
    for children, parent in decl[:-1]:
        if parent is None:
            raise pddl.Invalid("bare names only at the end")
    seen = set()
    for children, parent in decl:
        if not children:
            raise pddl.Invalid("empty group")
        for c in children:
            if c in seen or c == "object":
                raise pddl.Invalid("type declared twice")
            seen.add(c)
    dom, objects, T, names = build_domain(decl)
    if case.get("reqs") is not None:
        dom["requirements"] = REQS[case["reqs"] % len(REQS)]
    for n in names:   # acyclic
        if len(T.ancestors(n)) > len(names) + 1 or T.ancestors(n)[-1] != "object":
            raise pddl.Invalid("cyclic")
    depth = max([T.depth(n) for n in names], default=0)
    cbp = child_before_parent(decl)
    res.nontrivial = cbp or depth >= 3
    res.classes = [("child-first" if cbp else "parents-first") + f"/depth{min(depth, 4)}"]
    text = sexpr.flat(pddl.domain_tree(dom))
    res.key = sexpr.flat([":types"] + [x for ch, p in decl for x in (list(ch) + (["-", p] if p else []))])
    info = {"types": res.key}
    ok, domain = lib_call(parse_domain_text, text)
    if not ok:
        res.bad(f"C06/parse/exception:{domain.key}", {**info, "error": repr(domain)})
        return res
    # (1) keys and relation
    keys = set(domain.types)
    if keys != set(names) | {"object"}:
        res.bad("C06/types/keys", {**info, "missing": sorted(set(names) | {"object"} - keys), "extra": sorted(keys - set(names) - {"object"})})
        return res
    wrong = []
    for a, b in itertools.product(sorted(keys), repeat=2):
        ok2, got = lib_call(domain.types[a].is_sub_type, domain.types[b])
        if not ok2 or got != T.is_sub(a, b):
            wrong.append([a, b, T.is_sub(a, b), repr(got)])
    if wrong:
        res.bad("C06/is_sub_type", {**info, "wrong(a,b,expected,got)": wrong[:6]})
    # the relation survives the public copies: a copied type, and the type table of Domain.shallow_copy()
    okc, cp = lib_call(domain.shallow_copy)
    if not okc:
        res.bad(f"C06/shallow-copy/exception:{cp.key}", {**info, "error": repr(cp)})
    else:
        wrong = []
        for a, b in itertools.product(sorted(keys), repeat=2):
            for tag, ta, tb in (("copied-domain", cp.types.get(a), cp.types.get(b)),
                                ("copied-type", domain.types[a].copy(), domain.types[b])):
                ok2, got = lib_call(lambda: ta.is_sub_type(tb))
                if not ok2 or got != T.is_sub(a, b):
                    wrong.append([tag, a, b, T.is_sub(a, b), repr(got)])
        if wrong:
            res.bad("C06/is_sub_type-after-copy", {**info, "wrong(where,a,b,expected,got)": wrong[:6]})
    # the objects hanging off the table must agree too (constants, signatures keep references)
    for n in names:
        t = domain.constants[f"c-{n}"].type
        for b in sorted(keys):
            if t.is_sub_type(domain.types[b]) != T.is_sub(n, b):
                res.bad("C06/constant-type-stale", {**info, "constant": f"c-{n}", "against": b, "expected": T.is_sub(n, b)})
                break
        pt = list(domain.predicates[f"is-{n}"].signature.values())[0]
        for b in sorted(keys):
            if pt.is_sub_type(domain.types[b]) != T.is_sub(n, b):
                res.bad("C06/signature-type-stale", {**info, "predicate": f"is-{n}", "against": b, "expected": T.is_sub(n, b)})
                break
    # (2) hierarchy graph
    from pddl_plus_parser.models import create_type_hierarchy_graph
    okg, g = lib_call(create_type_hierarchy_graph, domain.types)
    if not okg:
        res.bad(f"C06/graph/exception:{g.key}", {**info, "error": repr(g)})
    else:
        exp_edges = {(T.parent[n], n) for n in names}
        if set(g.edges()) != exp_edges or set(g.nodes()) != keys:
            res.bad("C06/graph/edges", {**info, "missing": sorted(exp_edges - set(g.edges())), "extra": sorted(set(g.edges()) - exp_edges)})
    if res.disc:
        return res
    # (3) downstream: problem facts and fluents
    world = pddl.World(dom, objects)
    objs_txt = [[n, t] for n, t in objects]
    n_eval = 0
    for (on, ot), req in itertools.product(objects + dom["constants"], names + ["object"]):
        pred = f"is-{req}" if req != "object" else "isobj"
        st = (frozenset({(pred, on)}), {})
        ptxt = sexpr.flat(pddl.problem_tree("pr", "d", objs_txt, st))
        okp, prob = lib_call(parse_problem_text, ptxt, domain)
        exp = T.is_sub(ot, req)
        n_eval += 1
        if okp != exp:
            res.bad("C06/problem-fact/" + ("rejected-conforming" if exp else "accepted-non-conforming"),
                    {**info, "object": [on, ot], "required": req, "error": None if okp else repr(prob)})
            break
        if req != "object":
            st = (frozenset(), {(f"val-{req}", on): 1})
            ptxt = sexpr.flat(pddl.problem_tree("pr", "d", objs_txt, st))
            okp, prob = lib_call(parse_problem_text, ptxt, domain)
            n_eval += 1
            if okp != exp:
                res.bad("C06/problem-fluent/" + ("rejected-conforming" if exp else "accepted-non-conforming"),
                        {**info, "object": [on, ot], "required": req, "error": None if okp else repr(prob)})
                break
    # (3b) binary facts whose positions require different types, with distinct and with repeated objects
    allobjs = objects + dom["constants"]
    combos = [(req, nxt(names, req), on, ot, on2, ot2) for req in names for (on, ot) in allobjs
              for (on2, ot2) in [(on, ot)] + [o for o in allobjs if T.is_sub(o[1], nxt(names, req))][:1] +
              [o for o in allobjs if not T.is_sub(o[1], nxt(names, req))][:1]]
    if len(combos) > 48:       # large forests: an evenly spread sample (the small ones are covered completely)
        step = len(combos) / 48.0
        combos = [combos[int(i * step)] for i in range(48)]
    for req, req2, on, ot, on2, ot2 in combos:
            if True:
                st = (frozenset({(f"two-{req}", on, on2)}), {})
                okp, prob = lib_call(parse_problem_text, sexpr.flat(pddl.problem_tree("pr", "d", objs_txt, st)), domain)
                exp = T.is_sub(ot, req) and T.is_sub(ot2, req2)
                n_eval += 1
                if okp != exp:
                    res.bad("C06/problem-fact-binary/" + ("rejected-conforming" if exp else "accepted-non-conforming"),
                            {**info, "fact": [f"two-{req}", on, on2], "types": [ot, ot2], "required": [req, req2],
                             "error": None if okp else repr(prob)})
                    return res
    # (4) forall effects reach exactly the objects below the quantified type
    from pddl_plus_parser.models import Operator, State
    from collections import defaultdict
    objs = lib_objects(domain, build_objects(domain, objects))
    for t in names + ["object"]:
        def run():
            op = Operator(domain.actions[f"sweep-{t}"], domain, [], objs)
            return read_lib_state(op.apply(State(defaultdict(set), {}, is_init=True)))
        oka, got = lib_call(run)
        n_eval += 1
        exp = {("mark", o) for o in world.of_type(t)}
        if not oka:
            res.bad(f"C06/forall-effect/exception:{got.key}", {**info, "quantified": t, "error": repr(got)})
            break
        if set(got[0]) != exp:
            res.bad("C06/forall-effect/range", {**info, "quantified": t, "missing": sorted(exp - set(got[0])), "extra": sorted(set(got[0]) - exp)})
            break
    # the double sweeps start from a state that already mentions every object at a root-typed position: what an
    # object's type is follows from its declaration, not from the positions it fills in the state's facts
    mentioned = frozenset(("isobj", o) for o in world.objects)
    for t in names:
        def run2():
            op = Operator(domain.actions[f"sweep2-{t}"], domain, [], objs)
            return read_lib_state(op.apply(build_state(domain, world, (mentioned, {}))))
        oka, got = lib_call(run2)
        n_eval += 1
        exp = {("mark", o) for o in world.of_type(t)} | {("mark2", o) for o in world.of_type(nxt(names, t))} | set(mentioned)
        if not oka:
            res.bad(f"C06/forall-effect-pair/exception:{got.key}", {**info, "quantified": [t, nxt(names, t)], "error": repr(got)})
            break
        if set(got[0]) != exp:
            res.bad("C06/forall-effect-pair/range", {**info, "quantified": [t, nxt(names, t)], "missing": sorted(exp - set(got[0])),
                                                     "extra": sorted(set(got[0]) - exp)})
            break
    for t in names:
        def run3():
            op = Operator(domain.actions[f"shadow-{t}"], domain, [f"o-{nxt(names, t)}"], objs)
            return read_lib_state(op.apply(State(defaultdict(set), {}, is_init=True)))
        oka, got = lib_call(run3)
        n_eval += 1
        exp = {("mark", o) for o in world.of_type(t)}
        if not oka:
            res.bad(f"C06/forall-effect-shadowing/exception:{got.key}", {**info, "quantified": t, "parameter": nxt(names, t), "error": repr(got)})
            break
        if set(got[0]) != exp:
            res.bad("C06/forall-effect-shadowing/range", {**info, "quantified": t, "parameter": nxt(names, t),
                                                          "missing": sorted(exp - set(got[0])), "extra": sorted(set(got[0]) - exp)})
            break
    # (5) the applications above grounded operators: the domain must still accept what it accepted before
    #     (every object is an object), also when the root-typed object is declared as a trailing bare name
    if not res.disc:
        for (on, ot) in objects:
            st = (frozenset({("mark", on), ("isobj", on)}), {})
            tree = pddl.problem_tree("pr", "d", objs_txt, st)
            for variant in ("typed", "bare-root"):
                if variant == "bare-root":
                    ob = tree[3]
                    idx = [i for i, x in enumerate(ob) if x == "o-object"]
                    if not idx or ob[idx[0] + 1:idx[0] + 3] != ["-", "object"]:
                        continue
                    tree = tree[:3] + [ob[:idx[0]] + ob[idx[0] + 3:] + ["o-object"]] + tree[4:]
                okp, prob = lib_call(parse_problem_text, sexpr.flat(tree), domain)
                n_eval += 1
                if not okp:
                    res.bad("C06/problem-fact-after-applications/rejected-conforming",
                            {**info, "object": [on, ot], "objects": variant, "error": repr(prob)})
                    return res
        # ... and the bare root-typed object is no instance of any proper type
        for req in names:
            st = (frozenset({(f"is-{req}", "o-object")}), {})
            tree = pddl.problem_tree("pr", "d", objs_txt, st)
            ob = tree[3]
            idx = [i for i, x in enumerate(ob) if x == "o-object"]
            if idx and ob[idx[0] + 1:idx[0] + 3] == ["-", "object"]:
                tree = tree[:3] + [ob[:idx[0]] + ob[idx[0] + 3:] + ["o-object"]] + tree[4:]
                okp, prob = lib_call(parse_problem_text, sexpr.flat(tree), domain)
                n_eval += 1
                if okp:
                    res.bad("C06/problem-fact/accepted-non-conforming",
                            {**info, "object": ["o-object", "object (declared as a trailing bare name)"], "required": req})
                    return res
    res.evals = n_eval + len(keys) ** 2
    return res


# ---- declarations of a forest ------------------------------------------------------------------------

def decl_variants(pairs, ch=None, limit=None):
    """All (or, with a chooser, one drawn) declaration renderings of a logical forest."""
    by_parent = {}
    for c, p in pairs:
        by_parent.setdefault(p, []).append(c)
    parents_with_children = set(by_parent) - {"object"}
    roots = by_parent.get("object", [])
    # non-root groups: merged or split
    def group_options(parent, children):
        opts = [[[list(children), parent]]]
        if len(children) > 1:
            opts.append([[[c], parent] for c in children])
        return opts
    root_styles = ["object", "bare", "implicit"]
    out = []
    non_root = [group_options(p, cs) for p, cs in by_parent.items() if p != "object"]
    for combo in itertools.product(*non_root) if non_root else [()]:
        lines = [g for opt in combo for g in opt]
        for style in root_styles:
            if style == "object":
                rl = [[[r], "object"] for r in roots]
                bare = None
            elif style == "bare":
                rl, bare = [], list(roots)
            else:  # roots that have children are never declared on a left-hand side
                rl = [[[r], "object"] for r in roots if r not in parents_with_children]
                bare = None
                if all(r not in parents_with_children for r in roots):
                    continue
            base = lines + rl
            for perm in itertools.permutations(range(len(base))):
                d = [base[i] for i in perm]
                if bare:
                    d = d + [[bare, None]]
                out.append(d)
                if limit and len(out) >= limit:
                    return out
    return out


def forests(n, max_depth=4):
    """All forests on types t0..t(n-1) (parent function into {object, t_j}), acyclic, depth-bounded."""
    names = [f"t{i}" for i in range(n)]
    for parents in itertools.product(["object"] + names, repeat=n):
        pairs = [[names[i], parents[i]] for i in range(n)]
        if any(c == p for c, p in pairs):
            continue
        T = pddl.Types(pairs)
        ok = True
        for c in names:
            seen, cur, d = set(), c, 0
            while cur is not None and cur not in seen:
                seen.add(cur)
                cur = T.parent.get(cur)
                d += 1
            if cur is not None or d - 1 > max_depth:
                ok = False
                break
        if ok:
            yield pairs


# :adl implies :typing; what the section lists (and in which order) has no bearing on what is declared and checked
REQS = [[":adl"], [":adl", ":fluents"], [":typing", ":strips"], [":strips", ":equality", ":typing", ":fluents", ":conditional-effects"]]


def chunk_cases(tier, chunk):
    n_max, part, nparts, cap = chunk
    k = 0
    for n in range(1, n_max + 1):
        for pairs in forests(n):
            k += 1
            if k % nparts != part:
                continue
            vs = decl_variants(pairs)
            if cap and len(vs) > cap:
                step = len(vs) / cap
                vs = [vs[int(i * step)] for i in range(cap)]
            for j, d in enumerate(vs):
                # every third rendering is written under another legitimate requirements line (REQS)
                yield {"decl": d, "reqs": (j // 3) % len(REQS)} if j % 3 == 1 else {"decl": d}


def gen(ch, tier):
    n = ch.int(2, 8)
    names = [f"t{i}" for i in range(n)]
    order = ch.shuffle(names)
    pairs = []
    T = {}
    for i, c in enumerate(order):
        cands = ["object"] + [p for p in order[:i] if T[p] < 4]
        p = ch.choice(cands) if ch.flag(0.75) else "object"
        T[c] = 1 if p == "object" else T[p] + 1
        pairs.append([c, p])
    pairs = ch.shuffle(pairs)
    case = {"decl": draw_decl(ch, pairs)}
    side = ch.side("reqs")
    if side.flag(0.35):
        case["reqs"] = side.int(0, len(REQS) - 1)
    return case


def draw_decl(ch, pairs):
    """One drawn way of writing the forest `pairs` as :types lines (groups merged or split, roots declared under
    object / as trailing bare names / only mentioned as parents, lines in any order)."""
    by_parent = {}
    for c, p in pairs:
        by_parent.setdefault(p, []).append(c)
    lines = []
    for p, cs in by_parent.items():
        if p == "object":
            continue
        if len(cs) > 1 and ch.flag(0.5):
            lines += [[[c], p] for c in cs]
        else:
            lines.append([list(cs), p])
    roots = by_parent.get("object", [])
    has_kids = set(by_parent) - {"object"}
    style = ch.choice(["object", "bare", "implicit", "mixed"])
    bare = []
    for r in roots:
        s = style if style != "mixed" else ch.choice(["object", "bare", "implicit"])
        if s == "implicit" and r in has_kids:
            continue
        if s == "bare":
            bare.append(r)
        else:
            lines.append([[r], "object"])
    lines = ch.shuffle(lines)
    if bare:
        lines.append([bare, None])
    return lines


def plan(tier):
    if tier == "quick":
        return {"exhaustive": [(3, i, 16, 40) for i in range(16)], "streams": {"main": 1500}, "shards": 16,
                "exhaustive_is_complete": False,
                "exhaustive_note": "every forest with <= 3 types x up to 40 evenly spaced declaration renderings each (all permutations of the lines x merged/split groups x three root styles; thorough takes all of them and 4 types)"}
    return {"exhaustive": [(4, i, 64, 0) for i in range(64)], "streams": {"main": 30000}, "shards": 16,
            "exhaustive_is_complete": True,
            "exhaustive_note": "every forest with <= 4 types x every permutation of its declaration lines x merged/split groups x three root styles"}


def corpus():
    yield "child-before-parent", {"decl": [[["c"], "b"], [["b"], "a"], [["a"], "object"]]}
    yield "parent-only-mentioned", {"decl": [[["c", "d"], "b"]]}
    yield "bare-roots", {"decl": [[["s"], "t"], [["t", "u"], None]]}
