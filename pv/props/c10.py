"""C10 - a serialized trajectory parses back to the same states and actions.

Oracle: round trip.  (domain, problem, plan) -> TrajectoryExporter.parse_plan -> export_to_file ->
TrajectoryParser (with the problem's object table, and with objects deduced from the first state)
-> Observation; components must equal the exporter's triplets by the library's own == and by the
independently read serialized text, one component per action, chained."""
import json

from pv import ctx
from pv.harness import parse_domain, problem_text, read_lib_state, unjstate
from pv.lib import lib_call, parse_problem_text, write_tmp
from pv.props import plan_common as PC
from pv.ref import pddl, sexpr
from pv.runner import Res

ID = "C10"
RULE = ("trajectories produced from generated (domain, problem, plan >= 1 step) triples (fluents with repeated "
        "arguments, 0-ary atoms, negative and fractional values (also between -0.1 and 0), a by-standing fluent of 1-15 significant digits and magnitude 1e-14..1e21, empty states), parsed back with and without the "
        "problem's object table; joint-action trajectories (1-2 steps, 1-4 agents, nop entries, parameterless members) "
        "through MultiAgentTrajectoryExporter, parsed back with executing_agents (scenario shared with C16).  "
        "Non-trivial = the trajectory has >= 2 steps and some state holds a fluent with a repeated argument, a 0-ary "
        "atom, a negative or fractional value, or is empty; or it is a joint trajectory.  Distinct by (domain, init, plan).")
ASSUMPTIONS = ["plan steps whose reference outcome is undefined make the case excluded when the exporter raises",
               "without the problem's object table every object must occur in the first state (documented by the parser)"]


def features(states):
    f = set()
    for facts, fl in states:
        if not facts and not fl:
            f.add("empty-state")
        if any(len(a) == 1 for a in facts):
            f.add("zero-ary-atom")
        for k, v in fl.items():
            if len(set(k[1:])) < len(k) - 1:
                f.add("repeated-arg-fluent")
            if v < 0:
                f.add("negative-value")
            if v.denominator != 1:
                f.add("fractional-value")
    return f


def compare_observation(res, tag, info, obs, trip_states, trip_lib, plan, joint=False):
    comps = obs.components
    if len(comps) != len(plan):
        res.bad(f"C10/{tag}/length", {**info, "components": len(comps), "steps": len(plan)})
        return
    for i, c in enumerate(comps):
        if joint:
            got = [[a.name] + list(a.parameters) for a in c.grounded_joint_action.actions]
            exp = [[x.lower() for x in a] if a[0] != "nop" else ["nop"] for a in plan[i]]
        else:
            got = [c.grounded_action_call.name] + list(c.grounded_action_call.parameters)
            exp = [x.lower() for x in plan[i]]
        if got != exp:
            res.bad(f"C10/{tag}/action-call", {**info, "step": i, "expected": exp, "got": got})
            return
        pre, post = read_lib_state(c.previous_state), read_lib_state(c.next_state)
        e_pre, e_post = trip_states[i]
        if not pddl.states_equal(e_pre, pre) or not pddl.states_equal(e_post, post):
            d = pddl.state_diff(e_pre, pre) or pddl.state_diff(e_post, post)
            res.bad(f"C10/{tag}/state-text", {**info, "step": i, "diff(exported,parsed)": d})
            return
        l_pre, l_post = trip_lib[i]
        if not (c.previous_state == l_pre) or not (c.next_state == l_post) or not (l_pre == c.previous_state):
            res.bad(f"C10/{tag}/state-equality", {**info, "step": i, "exported": l_post.serialize(), "parsed": c.next_state.serialize()})
            return
        if i > 0 and not (c.previous_state == comps[i - 1].next_state):
            res.bad(f"C10/{tag}/chain", {**info, "step": i})
            return


def check_case(case):
    from pddl_plus_parser.exporters import TrajectoryExporter
    from pddl_plus_parser.lisp_parsers import TrajectoryParser
    res = Res()
    if case.get("kind") == "file":
        return check_file(case, res)
    if case.get("kind") == "joint":
        return check_joint(case, res)
    world = PC.validate_plan_case(case)
    dom, objects, plan = case["dom"], case["objects"], case["plan"]
    if not plan:
        raise pddl.Invalid("plan must have a step")
    init = unjstate(case["init"])
    ok, domain = parse_domain(dom)
    if not ok:
        res.skipped = "domain-parse-error(C01)"
        return res
    okp, problem = lib_call(parse_problem_text, problem_text(dom, objects, init), domain)
    if not okp:
        res.skipped = "problem-parse-error(C05)"
        return res
    lines = [PC.call_text(s) + "\n" for s in plan]
    info = {"domain": sexpr.flat(pddl.domain_tree(dom)), "init": case["init"], "plan": plan}

    def run_export():
        exporter = TrajectoryExporter(domain, allow_invalid_actions=bool(case.get("allow")))
        triplets = exporter.parse_plan(problem, action_sequence=list(lines))
        path = write_tmp("", suffix=".trajectory")
        exporter.export_to_file(triplets, path)
        return triplets, path
    oke, out = lib_call(run_export)
    if not oke:
        res.skipped = "exporter-raised(C04)"
        return res
    triplets, path = out
    trip_states = [(read_lib_state(t.previous_state), read_lib_state(t.next_state)) for t in triplets]
    trip_lib = [(t.previous_state, t.next_state) for t in triplets]
    feats = features([s for pair in trip_states for s in pair])
    res.classes = sorted(feats) or ["plain"]
    res.nontrivial = len(plan) >= 2 and bool(feats)
    res.key = json.dumps([dom, case["init"], plan], sort_keys=True)
    # every object must occur in the first state for the deduced-objects mode
    first_objs = {o for a in trip_states[0][0][0] for o in a[1:]} | {o for k in trip_states[0][0][1] for o in k[1:]}
    used = {o for s in plan for o in s[1:]} | {o for pre, post in trip_states for st in (pre, post) for a in st[0] for o in a[1:]}
    modes = [("with-problem", True)]
    if used <= first_objs:
        modes.append(("deduced-objects", False))
    for tag, with_problem in modes:
        def parse_back():
            parser = TrajectoryParser(domain, problem if with_problem else None)
            if case.get("reuse_parser") and len(triplets) >= 2:
                # the same parser object and the same path served another trajectory (the first step only) before
                exporter2 = TrajectoryExporter(domain, allow_invalid_actions=bool(case.get("allow")))
                exporter2.export_to_file(triplets[:1], path)
                try:
                    parser.parse_trajectory(path)
                except Exception:  # noqa: the decoy's outcome is not under test
                    pass
                exporter2.export_to_file(triplets, path)
            return parser.parse_trajectory(path)
        okt, obs = lib_call(parse_back)
        if not okt:
            res.bad(f"C10/{tag}/parse-exception:{obs.key}", {**info, "error": repr(obs), "text": open(path).read()[:1200]})
            continue
        compare_observation(res, tag, info, obs, trip_states, trip_lib, plan)
    res.evals = len(modes) * len(plan)
    return res


SHIPPED = [("tests/lisp_parsers_tests/depot_numeric.pddl", "tests/lisp_parsers_tests/pfile2.pddl", "tests/lisp_parsers_tests/test_numeric_trajectory"),
           ("tests/lisp_parsers_tests/farmland.pddl", "tests/lisp_parsers_tests/pfile10_10.pddl", "tests/lisp_parsers_tests/pfile10_10.trajectory"),
           ("tests/exporters_tests/depot_numeric.pddl", "tests/exporters_tests/pfile2.pddl", "tests/exporters_tests/test_numeric_trajectory"),
           ("tests/models_tests/domain_miconic.pddl", "tests/models_tests/miconic_pfile_1-0.pddl", "tests/models_tests/miconic_pfile_1-0.trajectory")]


def check_file(case, res):
    """A shipped trajectory file: the parsed Observation versus an independent reading of the same text."""
    import os
    from pathlib import Path
    from pddl_plus_parser.lisp_parsers import DomainParser, ProblemParser, TrajectoryParser
    from pv.harness import read_state_tree, BadState
    repo = os.environ.get("PV_REPO", "/repo")
    dpath, ppath, tpath = (os.path.join(repo, x) for x in (case["domain_file"], case["problem_file"], case["trajectory_file"]))
    res.classes = ["shipped-trajectory"]
    res.key = case["trajectory_file"]
    try:
        tree = sexpr.read(open(tpath).read())
        states = [read_state_tree(tree[0])] + [read_state_tree(x) for x in tree[2::2]]
        ops = [x[1] for x in tree[1::2]]
        if any(x[0] != "operator:" for x in tree[1::2]):
            raise BadState("joint trajectory")
    except (sexpr.Reject, BadState, OSError, IndexError) as e:
        res.skipped = f"independent-reader:{type(e).__name__}"
        return res
    for with_problem in (True, False):
        def run():
            domain = DomainParser(Path(dpath)).parse_domain()
            problem = ProblemParser(Path(ppath), domain).parse_problem() if with_problem else None
            return TrajectoryParser(domain, problem).parse_trajectory(Path(tpath))
        ok, obs = lib_call(run)
        if not ok:
            res.skipped = f"library-raised:{obs.key}"
            return res
        tag = "file-with-problem" if with_problem else "file-deduced-objects"
        comps = obs.components
        if len(comps) != len(ops):
            res.bad(f"C10/{tag}/length", {**case, "components": len(comps), "steps": len(ops)})
            return res
        for i, c in enumerate(comps):
            got = [c.grounded_action_call.name] + list(c.grounded_action_call.parameters)
            if got != ops[i]:
                res.bad(f"C10/{tag}/action-call", {**case, "step": i, "expected": ops[i], "got": got})
                return res
            pre, post = read_lib_state(c.previous_state), read_lib_state(c.next_state)
            if not pddl.states_equal(states[i], pre) or not pddl.states_equal(states[i + 1], post):
                res.bad(f"C10/{tag}/state", {**case, "step": i, "diff": pddl.state_diff(states[i], pre) or pddl.state_diff(states[i + 1], post)})
                return res
            if i > 0 and not (c.previous_state == comps[i - 1].next_state):
                res.bad(f"C10/{tag}/chain", {**case, "step": i})
                return res
        res.evals += len(comps)
    res.nontrivial = True
    return res


def check_joint(case, res):
    """A joint-action trajectory (one or two steps, nop entries, parameterless members): exported by
    MultiAgentTrajectoryExporter and parsed back with executing_agents.  The scenario and its judgement are C16's;
    only what concerns the text and its reading back is reported here."""
    from pv.props import c16
    r = c16.check_case(case["joint"])
    res.skipped, res.key, res.evals = r.skipped, "joint:" + (r.key or ""), r.evals
    res.classes = ["joint-trajectory"]
    mine = [(b, d) for b, d in r.disc if b.startswith("C16/parser/") or b == "C16/exporter/text"]
    for b, d in mine:
        res.bad("C10/joint/" + b[len("C16/"):], d)
    # the round trip was reached only if nothing earlier stopped C16's check
    res.nontrivial = not r.skipped and (bool(mine) or not r.disc) and r.classes[:1] and r.classes[0].startswith("ok")
    return res


def gen_joint(ch, tier):
    from pv.props import c16
    return {"kind": "joint", "joint": c16.gen(ch, tier)}


def chunk_cases(tier, chunk):
    for i, (d, p, t) in enumerate(SHIPPED):
        if i % chunk[1] == chunk[0]:
            yield {"kind": "file", "domain_file": d, "problem_file": p, "trajectory_file": t}


def gen(ch, tier):
    case = PC.gen_plan_case(ch, tier, max_len=6 if tier == "quick" else 15, p_applicable=0.85)
    case["allow"] = ch.flag(0.2)
    case["reuse_parser"] = ch.flag(0.4)
    if ch.flag(0.5) and not any(f[0] == "fz" for f in case["dom"]["functions"]):
        # a fluent no action reads or writes, holding a value of 1-15 significant digits and any magnitude
        # (1e-14 .. 1e21): it travels through every state text of the trajectory
        from pv.props.c14 import gen_value
        case["dom"]["functions"].append(["fz", []])
        case["init"]["fluents"] = sorted(case["init"]["fluents"] + [[["fz"], str(gen_value(ch))]])
    return case


def plan(tier):
    if tier == "quick":
        return {"exhaustive": [(i, 4) for i in range(4)], "streams": {"main": 6000, "joint": 2000}, "shards": 16, "exhaustive_is_complete": True,
                "exhaustive_note": "the single-agent trajectory files shipped under tests/ read by the library and by the independent reader"}
    return {"exhaustive": [(i, 4) for i in range(4)], "streams": {"main": 40000, "joint": 12000}, "shards": 16, "exhaustive_is_complete": True,
            "exhaustive_note": "the shipped single-agent trajectory files"}
