"""C07 - queries and transitions are pure: inputs and earlier results are never modified.

A case is a *history*: a list of API operations (plain data) over pools of parsed domains, problems,
live states (every state ever returned stays in the pool) and operators (kept and re-used).  After
every operation the canonical digest of every pooled object must be unchanged, repeated queries must
return the recorded answer, and a fresh Domain() must still know only the type `object`.  The whole
history is the replay file; the reducer deletes operations."""
import json
import os

from pv import ctx
from pv.gen import domains as G
from pv.harness import (build_objects, build_state, lib_objects, parse_domain, problem_text, read_lib_state,
                        unjstate, jstate, domain_text)
from pv.lib import lib_call, parse_problem_text, fresh_dir
from pv.props import sem_common as S
from pv.ref import extract, pddl, sexpr
from pv.runner import Res

ID = "C07"
RULE = ("histories of up to 30 API calls over 1-2 generated domains: parse (again), ground (also again on a pooled operator), applicability query, "
        "apply with each flag combination, re-apply a pooled operator to earlier and later states, print (str, "
        "print with/without simplification, effects_to_pddl, serialize, typed_serialize, typed_action_call), export "
        "domain / problem / trajectory, combine agent domains from a directory, construct a fresh Domain().  After "
        "every call: digests (exported text + structural walk) of all pooled domains, states and the module-level "
        "type table are unchanged; repeated queries return the recorded answer.  Non-trivial = the history re-applies "
        "an operator object, or reads a schema after a forall-effect apply, or parses/constructs after a combine.  "
        "Distinct by history.")
ASSUMPTIONS = ["digests use public attributes and printed text only",
               "thread interleavings: a separate stream runs two histories on one shared domain under a deterministic "
               "line-level scheduler (thorough tier)"]


def _leaf_values(a):
    """Stored values of the function objects and of the constants hanging in the schema's numeric expressions."""
    from pddl_plus_parser.models import NumericalExpressionTree, PDDLFunction, Precondition
    out = []

    def tree(t):
        for node in t:
            if node.is_leaf and isinstance(node.value, PDDLFunction):
                out.append((node.value.name, repr(node.value.value)))
            elif node.is_leaf and isinstance(node.value, (int, float)):
                out.append(("constant", repr(float(node.value))))      # as stored, not as printed

    def cond(c):
        for o in c.operands:
            if isinstance(o, NumericalExpressionTree):
                tree(o)
            elif isinstance(o, Precondition):
                cond(o)
    cond(a.preconditions.root)
    for t in a.numeric_effects:
        tree(t)
    for ce in list(a.conditional_effects) + [c for u in a.universal_effects for c in u.conditional_effects]:
        cond(ce.antecedents.root)
        for t in ce.numeric_effects:
            tree(t)
    return sorted(out)


def digest_action(a):
    okv, vals = lib_call(_leaf_values, a)      # before anything is printed
    ok, xa = lib_call(extract.x_action, a)
    sig = [[k, v.name] for k, v in a.signature.items()]
    return json.dumps([sig, xa if ok else repr(xa), vals if okv else repr(vals)], sort_keys=True, default=str)


def digest_domain(d):
    ok, v = lib_call(extract.x_vocab, d)
    parts = [json.dumps(v if ok else repr(v), sort_keys=True, default=str),
             json.dumps(sorted((n, repr(f.value)) for n, f in d.functions.items()))]
    for name in sorted(d.actions):
        parts.append(name + ":" + digest_action(d.actions[name]))
    return "\n".join(parts)


def digest_state(s):
    try:
        facts, fl = read_lib_state(s)
        typed = s.typed_serialize()
        # the public mappings themselves belong to the value: their key sets (a query must not leave empty groups behind)
        keys = [sorted(str(k) for k in s.state_predicates), sorted(str(k) for k in s.state_fluents)]
        label = sexpr.read(s.serialize())[0]       # (:init or (:state: part of what a state prints as
        return json.dumps([sorted(facts), sorted((k, str(v)) for k, v in fl.items()), sorted(sexpr.tokenize(typed)), keys, label], default=str)
    except Exception as e:  # noqa: a state that cannot be read is a digest of its own
        return "UNREADABLE:" + repr(e)[:200]


def same_up_to_rounding(d1, d2):
    """Two state digests that differ only in the last digits of fluent values: several increases of one fluent
    are summed in the iteration order of a hash set, and float addition is not associative."""
    try:
        a, b = json.loads(d1), json.loads(d2)
        if a[0] != b[0] or a[3:] != b[3:] or [k for k, _ in a[1]] != [k for k, _ in b[1]]:
            return False
        from fractions import Fraction
        return all(abs(Fraction(x) - Fraction(y)) <= Fraction(1, 10 ** 9) * max(1, abs(Fraction(x))) for (_, x), (_, y) in zip(a[1], b[1]))
    except Exception:
        return False


def digest_problem(p):
    return json.dumps([p.name, [(n, o.type.name) for n, o in p.objects.items()],
                       sorted((k, sorted(x.untyped_representation for x in g)) for k, g in p.initial_state_predicates.items() if g),
                       sorted((k, repr(f.value)) for k, f in p.initial_state_fluents.items()),
                       sorted(x.untyped_representation for x in p.goal_state_predicates),
                       sorted(str(x) for x in p.goal_state_fluents)], default=str)


def digest_globals():
    from pddl_plus_parser.models import pddl_domain, pddl_type
    from pddl_plus_parser.models import Domain
    dt = {k: (v.name, v.parent.name if v.parent else None) for k, v in pddl_domain.DEFAULT_TYPES.items()}
    ot = (pddl_type.ObjectType.name, pddl_type.ObjectType.parent)
    fresh = sorted(Domain().types)
    return json.dumps([sorted(dt.items()), ot, fresh], default=str)


class World:
    """Pools of live library objects during one history."""

    def __init__(self, case):
        self.case = case
        self.domains = []      # (spec index, lib domain, objs)
        self.states = []       # (domain slot, lib state)
        self.operators = []    # (domain slot, action, args, op)
        self.trajectories = [] # (domain slot, list of triplets) returned by the exporter
        self.converter = None  # a MultiAgentDomainsConverter kept across combine operations
        self.combined = []     # combined domains it returned
        self.problems = []     # parsed Problem objects (the object table, initial state and goal they hold stay what they were)
        self.with_objects = set()   # ids of pooled operators that were given the object table (needed for forall effects)
        self.answers = {}      # (op slot, state slot) -> applicability
        self.results = {}      # (op slot, state slot, flags) -> digest of the returned state
        self.digests = {}
        self.g0 = digest_globals()

    def snapshot(self):
        d = {}
        for i, (_, dom, _) in enumerate(self.domains):
            d[("domain", i)] = digest_domain(dom)
        for i, (_, st) in enumerate(self.states):
            d[("state", i)] = digest_state(st)
        for i, comb in enumerate(self.combined):
            d[("domain", f"combined{i}")] = digest_domain(comb)
        for i, prob in enumerate(self.problems):
            d[("problem", i)] = digest_problem(prob)
        return d


def run_history(case, res):
    from pddl_plus_parser.models import Operator, State, Domain
    from pddl_plus_parser.exporters import DomainExporter, ProblemExporter, TrajectoryExporter
    specs = case["specs"]
    W = World(case)
    feats = set()
    applied_forall = False
    combined = False

    def check(step, op):
        snap = W.snapshot()
        for k, v in W.digests.items():
            if k in snap and snap[k] != v:
                kind = k[0]
                res.bad(f"C07/{kind}-changed-by/{op['op']}", {"step": step, "op": op, "object": list(k),
                                                            "before": v[:700], "after": snap[k][:700]})
                return False
        W.digests = snap
        g = digest_globals()
        if g != W.g0:
            res.bad(f"C07/global-type-table-changed-by/{op['op']}", {"step": step, "op": op, "before": W.g0, "after": g})
            return False
        return True

    for step, op in enumerate(case["ops"]):
        kind = op["op"]
        if kind == "parse_domain":
            spec = specs[op["spec"] % len(specs)]
            ok, dom = parse_domain(spec["dom"])
            if ok:
                W.domains.append((op["spec"] % len(specs), dom, lib_objects(dom, build_objects(dom, spec["objects"]))))
                if combined:
                    feats.add("parse-after-combine")
        elif kind == "fresh_domain":
            ok, d = lib_call(Domain)
            if ok and sorted(d.types) != ["object"]:
                res.bad("C07/fresh-domain-types", {"step": step, "types": sorted(d.types)})
                return feats
            if combined:
                feats.add("parse-after-combine")
        elif not W.domains:
            continue
        elif kind == "state":
            slot = op["d"] % len(W.domains)
            si, dom, objs = W.domains[slot]
            spec = specs[si]
            world = pddl.World(spec["dom"], spec["objects"])
            st = unjstate(spec["states"][op["s"] % len(spec["states"])])
            if op.get("via") == "problem":
                ok, prob = lib_call(parse_problem_text, problem_text(spec["dom"], spec["objects"], st), dom)
                if ok:
                    W.states.append((slot, State(prob.initial_state_predicates, prob.initial_state_fluents, is_init=True)))
                    W.problems.append(prob)
            else:
                W.states.append((slot, build_state(dom, world, st)))
        elif kind == "ground":
            slot = op["d"] % len(W.domains)
            si, dom, objs = W.domains[slot]
            spec = specs[si]
            calls = spec["calls"]
            if not calls:
                continue
            name, args = calls[op["c"] % len(calls)]
            o = Operator(dom.actions[name], dom, list(args), objs if op.get("with_objects", True) else None)
            lib_call(o.ground)
            W.operators.append((slot, name, args, o))
            if op.get("with_objects", True):
                W.with_objects.add(id(o))
        elif kind == "reground":
            # ground() is public and may be called again on an operator that was already grounded or used
            if not W.operators:
                continue
            lib_call(W.operators[op["o"] % len(W.operators)][3].ground)
        elif kind in ("applicable", "apply"):
            if not W.operators or not W.states:
                continue
            oi = op["o"] % len(W.operators)
            slot, name, args, o = W.operators[oi]
            cands = [i for i, (s_slot, _) in enumerate(W.states) if W.domains[s_slot][0] == W.domains[slot][0]]
            if not cands:
                continue
            sti = cands[op["s"] % len(cands)]
            st = W.states[sti][1]
            a = pddl.find_action(specs[W.domains[slot][0]]["dom"], name)
            if kind == "applicable":
                ok, ans = lib_call(o.is_applicable, st)
                key = (oi, sti)
                val = ans if ok else "EXC:" + ans.key
                if key in W.answers and W.answers[key] != val:
                    res.bad("C07/repeated-applicability-query-differs", {"step": step, "op": op, "first": W.answers[key], "now": val})
                    return feats
                W.answers[key] = val
            else:
                flags = (bool(op.get("allow")), bool(op.get("skip")))
                ok, new = lib_call(o.apply, st, allow_inapplicable_actions=flags[0], skip_validation=flags[1])
                key = (oi, sti, flags)
                val = digest_state(new) if ok else "EXC:" + new.key
                if any(k[0] == oi for k in W.results):
                    feats.add("operator-reapplied")
                if "forall" in pddl.heads(a["eff"]):
                    applied_forall = True
                # effects that conflict make the result order-dependent: only purity is checked for them
                if key in W.results and W.results[key] != val and not same_up_to_rounding(W.results[key], val) \
                        and not conflicting(specs[W.domains[slot][0]], a, args, st):
                    res.bad("C07/repeated-apply-differs", {"step": step, "op": op, "first": W.results[key][:600], "now": val[:600]})
                    return feats
                W.results[key] = val
                if ok:
                    # whatever happened earlier in the history (other domains parsed, combined, grounded ...), the
                    # result is still this domain's successor
                    acceptable = reference_outcomes(specs[W.domains[slot][0]], a, args, st) if id(o) in W.with_objects else None
                    if acceptable:
                        try:
                            got_ref = read_lib_state(new)
                        except Exception:
                            got_ref = None
                        if got_ref is not None and not any(pddl.states_equal(x, got_ref) for x in acceptable):
                            res.bad("C07/apply-result-is-not-the-domain's-successor-after-this-history",
                                    {"step": step, "op": op, "diff": pddl.state_diff(acceptable[0], got_ref)})
                            return feats
                    W.states.append((W.states[sti][0], new))
        elif kind == "inplace_effect":
            # GroundedEffect.apply mutates the state it is given (public API, used by the repository's tests):
            # queries before and after must reflect the state's current content
            if not W.operators or not W.states:
                continue
            oi = op["o"] % len(W.operators)
            slot, name, args, o = W.operators[oi]
            cands = [i for i, (s_slot, _) in enumerate(W.states) if W.domains[s_slot][0] == W.domains[slot][0]]
            if not cands or not getattr(o, "grounded", False):
                continue
            private = W.states[cands[op["s"] % len(cands)]][1].copy()
            lib_call(o.is_applicable, private)
            lib_call(private.serialize)
            effs = [e for e in o.grounded_effects]
            if not effs:
                continue
            okm, _ = lib_call(effs[op["c"] % len(effs)].apply, private)
            if okm:
                fresh = rebuild_from_attributes(private)
                a1, a2 = lib_call(o.is_applicable, private), lib_call(o.is_applicable, fresh)
                t1, t2 = lib_call(private.serialize), lib_call(fresh.serialize)
                same_text = t1[0] and t2[0] and sorted(sexpr.tokenize(t1[1])) == sorted(sexpr.tokenize(t2[1]))
                if (a1[0], a1[1] if a1[0] else None) != (a2[0], a2[1] if a2[0] else None) or not same_text or not (private == fresh):
                    res.bad("C07/query-after-in-place-effect-is-stale", {"step": step, "op": op, "action": name, "args": args,
                                                                          "mutated": t1[1] if t1[0] else repr(t1[1]), "fresh": t2[1] if t2[0] else repr(t2[1]),
                                                                          "applicable": [repr(a1[1]), repr(a2[1])]})
                    return feats
            feats.add("in-place-effect")
        elif kind == "print":
            slot = op["d"] % len(W.domains)
            si, dom, objs = W.domains[slot]
            for a in dom.actions.values():
                lib_call(str, a)
                lib_call(a.effects_to_pddl)
                lib_call(a.preconditions.print, True)
                lib_call(a.preconditions.print, False, 3)
                lib_call(str, a.preconditions)
            lib_call(str, dom)
            for _, st in W.states[-3:]:
                lib_call(st.serialize)
                lib_call(st.typed_serialize)
                lib_call(st.get_state_objects)
                lib_call(st.convert_fluents_to_numeric_conditions)
            for _, _, _, o in W.operators[-3:]:
                lib_call(lambda: o.typed_action_call)
                lib_call(str, o)
            if applied_forall:
                feats.add("schema-read-after-forall-apply")
        elif kind == "export_domain":
            slot = op["d"] % len(W.domains)
            lib_call(DomainExporter().extract_domain, W.domains[slot][1])
            if applied_forall:
                feats.add("schema-read-after-forall-apply")
        elif kind == "export_trajectory":
            slot = op["d"] % len(W.domains)
            si, dom, objs = W.domains[slot]
            spec = specs[si]
            st = unjstate(spec["states"][op["s"] % len(spec["states"])])
            ok, prob = lib_call(parse_problem_text, problem_text(spec["dom"], spec["objects"], st), dom)
            if ok:
                W.problems.append(prob)
                W.digests[("problem", len(W.problems) - 1)] = digest_problem(prob)
            if ok and spec["calls"]:
                plan = [spec["calls"][(op["c"] + i) % len(spec["calls"])] for i in range(1 + op["c"] % 3)]
                lines = ["(" + " ".join([n] + list(a)) + ")" for n, a in plan]

                def run():
                    ex = TrajectoryExporter(dom, allow_invalid_actions=True)
                    tr = ex.parse_plan(prob, action_sequence=lines)
                    ex.export(tr)
                    ProblemExporter().extract_problem(prob)
                    return tr
                okt, tr = lib_call(run)
                if okt:
                    for t in tr[-2:]:
                        W.states.append((slot, t.next_state))
                    W.trajectories.append((slot, tr))
                    if any("forall" in pddl.heads(pddl.find_action(spec["dom"], n)["eff"]) for n, _ in plan):
                        applied_forall = True
        elif kind == "reexport":
            # a trajectory returned earlier is exported again, whole or from its k-th step on (a slice is a list of
            # triplets like any other): the states it holds - pooled above - must keep their value and label
            if not W.trajectories:
                continue
            slot, tr = W.trajectories[op["o"] % len(W.trajectories)]
            dom = W.domains[slot][1]
            k0 = op["c"] % max(1, len(tr))
            lib_call(lambda: TrajectoryExporter(dom).export(tr[k0:]))
            lib_call(lambda: TrajectoryExporter(dom).export(tr))
        elif kind == "combine":
            from pddl_plus_parser.multi_agent import MultiAgentDomainsConverter
            d = fresh_dir()
            for i, spec in enumerate(specs):
                with open(d / f"domain-agent{i}.pddl", "w") as fh:
                    fh.write(domain_text(spec["dom"]))
            # one converter object may serve several combinations; what it returned earlier stays what it was
            if W.converter is None or not op.get("reuse", True):
                W.converter = MultiAgentDomainsConverter(d)
            else:
                W.converter.domains_directory_path = d
            okc, comb = lib_call(W.converter.locate_domains, bool(op.get("dummy")))
            if okc:
                W.combined.append(comb)
            combined = True
        else:
            raise pddl.Invalid(f"unknown op {kind}")
        if not check(step, op):
            return feats
    return feats


def rebuild_from_attributes(state):
    """A fresh State with the same content, read through the containers (not through serialize())."""
    from collections import defaultdict
    from pddl_plus_parser.models import GroundedPredicate, PDDLFunction, State
    preds = defaultdict(set)
    for key, group in state.state_predicates.items():
        for p in group:
            preds[key].add(GroundedPredicate(p.name, dict(p.signature), dict(p.object_mapping), p.is_positive))
    fl = {}
    for key, f in state.state_fluents.items():
        g = PDDLFunction(f.name, dict(f.signature), dict(f.repeating_variables))
        g.set_value(f.value)
        fl[key] = g
    return State(preds, fl, is_init=state.is_init)


def reference_outcomes(spec, a, args, lib_state):
    """The successor(s) the reference allows for applying `a` to the state (exact; under the K3 model too), or
    None when it has no defined outcome there (conflicts, undefined fluents, float cancellation)."""
    try:
        st = read_lib_state(lib_state)
        world = pddl.World(spec["dom"], spec["objects"])
        env = {p: o for (p, _), o in zip(a["params"], args)}
        out = [pddl.successor(a["eff"], env, st, world)]
        if pddl.cancellation_in_effects(a["eff"], env, st, world):
            return None
        if ctx.active(S.F_NESTED):
            out.append(pddl.successor(S.k3_effect(a["eff"]), env, st, world))
        return out
    except Exception:
        return None


def conflicting(spec, a, args, lib_state):
    try:
        st = read_lib_state(lib_state)
        world = pddl.World(spec["dom"], spec["objects"])
        env = {p: o for (p, _), o in zip(a["params"], args)}
        pddl.successor(a["eff"], env, st, world)
        pddl.successor(S.k3_effect(a["eff"]), env, st, world)
        return False
    except (pddl.Conflict, pddl.Undefined, pddl.Ambiguous):
        return True
    except Exception:
        return True


def validate_spec(spec):
    """States of a history may leave fluents undefined (purity does not need the reference semantics)."""
    w = pddl.World(spec["dom"], spec["objects"])
    names = [n for n, _ in spec["objects"]]
    if len(set(names)) != len(names) or set(names) & {c for c, _ in spec["dom"]["constants"]}:
        raise pddl.Invalid("object names")
    atoms, fls = set(w.ground_atoms()), set(w.ground_fluents())
    for st in spec["states"]:
        if not {tuple(f) for f in st["facts"]} <= atoms:
            raise pddl.Invalid("state fact outside the universe")
        keys = [tuple(k) for k, _ in st["fluents"]]
        if not set(keys) <= fls or len(set(keys)) != len(keys):
            raise pddl.Invalid("state fluent outside the universe")
    for n, a in spec["calls"]:
        act = pddl.find_action(spec["dom"], n)
        if len(a) != len(act["params"]) or any(o not in w.objects or not w.types.is_sub(w.objects[o], t) for o, (_, t) in zip(a, act["params"])):
            raise pddl.Invalid("call")


def reset_globals():
    """Module-level state of the library is reset at the top of every case, so that a leak is
    reported for the history that causes it and not for whatever runs next in the same process."""
    from pddl_plus_parser.models import pddl_domain, pddl_type
    pddl_domain.DEFAULT_TYPES.clear()
    pddl_domain.DEFAULT_TYPES["object"] = pddl_type.ObjectType
    pddl_type.ObjectType.parent = None
    pddl_type.ObjectType.name = "object"


def thread_body(kind, domain, objs, world, spec, call, st):
    from pddl_plus_parser.models import Operator
    from pddl_plus_parser.exporters import DomainExporter
    name, args = call

    def apply():
        op = Operator(domain.actions[name], domain, list(args), objs)
        return json.dumps(jstate(read_lib_state(op.apply(build_state(domain, world, st), allow_inapplicable_actions=True))))

    def applicable():
        return Operator(domain.actions[name], domain, list(args), objs).is_applicable(build_state(domain, world, st))

    def export():
        return DomainExporter().extract_domain(domain)

    def ground_and_print():
        op = Operator(domain.actions[name], domain, list(args), objs)
        op.ground()
        return [op.typed_action_call, str(domain.actions[name]), domain.actions[name].effects_to_pddl()]
    return {"apply": apply, "applicable": applicable, "export": export, "print": ground_and_print}[kind]


def check_threads(case, res):
    """Two operations on one shared domain under the deterministic scheduler: each must return what
    it returns when run alone, and the domain's digest must not change."""
    from pv import sched
    spec = case["specs"][0]
    pddl.validate_domain(spec["dom"], spec["objects"])
    ok, domain = parse_domain(spec["dom"])
    if not ok:
        res.skipped = "domain-parse-error(C01)"
        return
    world = pddl.World(spec["dom"], spec["objects"])
    objs = lib_objects(domain, build_objects(domain, spec["objects"]))
    bodies = []
    for t in case["threads"]:
        call = spec["calls"][t["c"] % len(spec["calls"])] if spec["calls"] else None
        if call is None:
            res.skipped = "no-call"
            return
        st = unjstate(spec["states"][t["s"] % len(spec["states"])])
        a = pddl.find_action(spec["dom"], call[0])
        if t["kind"] == "apply" and conflicting_ref(spec, a, call[1], st):
            res.skipped = "conflicting-effects"
            return
        bodies.append(thread_body(t["kind"], domain, objs, world, spec, call, st))
    before = digest_domain(domain)
    alone = [lib_call(b) for b in bodies]
    if digest_domain(domain) != before:
        return   # a sequential purity defect: the history stream reports it
    prefix = os.path.join(os.environ.get("PV_REPO", "/repo"), "pddl_plus_parser")
    # schedules: the drawn list of switch points, plus single preemptions of the first thread placed at the drawn
    # fractions of its own length (measured in line events): the other thread then runs to completion in between
    schedules = [list(case["switch"])]
    if case.get("fracs"):
        _, len0 = sched.TwoThreadScheduler([], prefix).run(bodies[0], lambda: None)
        schedules += [[max(1, int(f * len0))] for f in case["fracs"]]
    steps = 0
    for switch in schedules:
        if _run_schedule(case, res, spec, bodies, alone, switch, prefix) is False:
            return
        steps = max(steps, _run_schedule.last_steps)
    if digest_domain(domain) != before:
        res.bad("C07/threads/domain-changed", {"threads": case["threads"], "switch": case["switch"]})
    res.nontrivial = True
    res.classes = ["threads:" + "+".join(sorted(t["kind"] for t in case["threads"]))]
    res.evals = 2 * len(schedules)


def _run_schedule(case, res, spec, bodies, alone, switch, prefix):
    from pv import sched
    results, steps = sched.TwoThreadScheduler(switch, prefix).run(bodies[0], bodies[1])
    _run_schedule.last_steps = steps
    for i, (r, base) in enumerate(zip(results, alone)):
        exp = ("ok", base[1]) if base[0] else ("exc", None)
        same = r[0] == exp[0] and (r[0] != "ok" or r[1] == exp[1])
        if not same and r[0] == "ok" == exp[0] and case["threads"][i]["kind"] == "apply":
            # float sums may differ in the last digit between two iteration orders of the effect sets
            try:
                same = pddl.states_equal(unjstate(json.loads(r[1])), unjstate(json.loads(exp[1])))
            except Exception:
                same = False
        if not same:
            res.bad(f"C07/threads/result-differs-from-sequential/{case['threads'][i]['kind']}",
                    {"threads": case["threads"], "switch": switch, "thread": i, "alone": repr(base[1])[:500], "interleaved": repr(r[1])[:500],
                     "domain": sexpr.flat(pddl.domain_tree(spec["dom"]))})
            return False
    return True


def conflicting_ref(spec, a, args, st):
    try:
        world = pddl.World(spec["dom"], spec["objects"])
        env = {p: o for (p, _), o in zip(a["params"], args)}
        pddl.successor(a["eff"], env, st, world)
        pddl.successor(S.k3_effect(a["eff"]), env, st, world)
        return False
    except (pddl.Conflict, pddl.Undefined, pddl.Ambiguous):
        return True


def check_case(case):
    res = Res()
    reset_globals()
    if "threads" in case:
        check_threads(case, res)
        return res
    for spec in case["specs"]:
        pddl.validate_domain(spec["dom"], spec["objects"])
        validate_spec(spec)
    feats = run_history(case, res)
    res.classes = sorted(feats) or ["plain"]
    res.nontrivial = bool(feats)
    res.evals = len(case["ops"])
    return res


def gen_spec(ch, ft):
    dom, objects = G.gen_domain(ch, ft)
    world = pddl.World(dom, objects)
    states = []
    for _ in range(ch.int(1, 3)):
        facts, fl = G.gen_state(ch, world)
        if ch.flag(0.4):    # leave some fluents undefined: an effect may then create them
            fl = {k: v for k, v in fl.items() if not ch.flag(0.4)}
        states.append(jstate((facts, fl)))
    calls = []
    for a in dom["actions"]:
        for _ in range(2):
            args = G.gen_call(ch, world, a)
            if args is not None:
                calls.append([a["name"], args])
    return {"dom": dom, "objects": objects, "states": states, "calls": calls}


def gen(ch, tier):
    ft = G.feats(max_actions=2, max_leaves=1, p_when=0.4, p_forall_eff=0.6, nested=False, forall_pre=False, p_long_number=0.15, long_decimals=6)
    specs = [gen_spec(ch, dict(ft, typed=True))]
    if ch.flag(0.5):
        specs.append(gen_spec(ch, dict(ft, typed=not ch.flag(0.5))))
        specs[1]["dom"]["name"] = "d2"
    ops = [{"op": "parse_domain", "spec": 0}, {"op": "state", "d": 0, "s": 0, "via": "problem"}, {"op": "ground", "d": 0, "c": 0}]
    n = ch.int(4, 30 if tier == "quick" else 60)
    for _ in range(n):
        k = ch.weighted([(5, "apply"), (3, "applicable"), (2, "ground"), (2, "reground"), (1, "reexport"), (2, "state"), (2, "print"), (2, "inplace_effect"), (1, "parse_domain"),
                         (1, "export_domain"), (1, "export_trajectory"), (1, "combine"), (1, "fresh_domain")])
        op = {"op": k, "d": ch.int(0, 3), "s": ch.int(0, 7), "o": ch.int(0, 7), "c": ch.int(0, 7)}
        if k == "apply":
            op["allow"] = ch.flag(0.6)
            op["skip"] = ch.flag(0.2)
        if k == "state":
            op["via"] = ch.choice(["problem", "direct"])
        if k == "ground":
            op["with_objects"] = ch.flag(0.8)
        if k == "parse_domain":
            op["spec"] = ch.int(0, 1)
        if k == "combine":
            op["dummy"] = ch.flag(0.5)
        ops.append(op)
    return {"specs": specs, "ops": ops}


def gen_threads(ch, tier):
    ft = G.feats(max_actions=2, max_leaves=1, p_when=0.4, p_forall_eff=0.8, nested=False, forall_pre=False, typed=True, typed_fixed=True)
    spec = gen_spec(ch, ft)
    kinds = ["apply", "apply", "apply", "applicable", "export", "print"]
    threads = [{"kind": ch.choice(kinds), "c": ch.int(0, 7), "s": ch.int(0, 3)} for _ in range(2)]
    n = ch.int(1, 4)
    switch = sorted({ch.int(1, 400) for _ in range(n)})
    fracs = [round((k + ch.int(0, 99) / 100.0) / 6.0, 4) for k in range(6)]      # one preemption per sixth of the first thread
    return {"specs": [spec], "threads": threads, "switch": switch, "fracs": fracs}


def plan(tier):
    if tier == "quick":
        return {"streams": {"main": 1200, "threads": 320}, "shards": 16}
    return {"streams": {"main": 20000, "threads": 6000}, "shards": 16}
