"""Shared by C04 / C10 / C15 / C16: (domain, problem, plan) generation with a reference simulation."""
from fractions import Fraction

from pv import ctx
from pv.gen import domains as G
from pv.harness import jstate, unjstate
from pv.props import sem_common as S
from pv.ref import pddl


def gen_plan_case(ch, tier, ft=None, max_len=8, p_applicable=0.7, fluent_reading=True):
    ft = dict(ft or G.feats(max_actions=3, max_leaves=2, forall_pre=False, nested=False, p_when=0.4, p_forall_eff=0.3,
                            p_partial_init=0.25))
    if not ft.get("typed_fixed"):
        ft["typed"] = not ch.flag(0.1)
    dom, objects = G.gen_domain(ch, ft)
    world = pddl.World(dom, objects)
    st = G.gen_state(ch, world)
    if ft.get("p_partial_init") and ch.flag(ft["p_partial_init"]):
        # some functions are left out of :init (uninitialised counters): an assign must still create them
        st = (st[0], {k: v for k, v in st[1].items() if not ch.flag(0.3)})
    init = st
    plan = []
    ground = []
    for a in dom["actions"]:
        for call in world.calls(a):
            ground.append([a["name"]] + list(call))
    n = ch.int(1, max_len)
    for _ in range(n):
        if not ground or pddl.beyond_float(st):      # the walk stops where the exact reference stops judging
            break
        step = None
        if ch.flag(p_applicable):
            apps = []
            for g in ch.sample(ground, min(len(ground), 12)):
                try:
                    if pddl.applicable(dom, world, g, st):
                        pddl.apply(dom, world, g, st)
                        apps.append(g)
                except (pddl.Undefined, pddl.Ambiguous, pddl.Conflict):
                    continue
            if apps:
                step = ch.choice(apps)
        if step is None:
            step = ch.choice(ground)
        plan.append(step)
        try:
            if pddl.applicable(dom, world, step, st):
                st = pddl.apply(dom, world, step, st)
        except (pddl.Undefined, pddl.Ambiguous, pddl.Conflict):
            pass
    return {"dom": dom, "objects": objects, "init": jstate(init), "plan": plan,
            "case_mode": ch.weighted([(5, 0), (1, 1)])}


def validate_plan_case(case):
    dom, objects = case["dom"], case["objects"]
    pddl.validate_domain(dom, objects)
    w = pddl.validate_probes(dom, objects, [{"action": s[0], "args": s[1:], "state": case["init"]} for s in case["plan"]] or
                             [], partial=True)     # :init may leave functions without a value
    if not case["plan"]:
        w = pddl.World(dom, objects)
    return w


def reference_run(dom, world, init, plan, k3_active):
    """Step-by-step reference execution.  Returns list of dicts per step:
    {pre, applicable (reference), lib_applicable (under the K3 defect model when active), post | None,
     undefined: reason | None}.  Stops (marks the rest 'after-undefined') once a step has no defined outcome."""
    out = []
    st = init
    dead = False
    for step in plan:
        rec = {"pre": st, "applicable": None, "lib_applicable": None, "post": None, "why": None}
        if dead:
            rec["why"] = "after-undefined"
            out.append(rec)
            continue
        a = pddl.find_action(dom, step[0])
        env = {p: o for (p, _), o in zip(a["params"], step[1:])}
        try:
            rec["applicable"] = pddl.holds(a["pre"] or [], env, st, world)
            rec["lib_applicable"] = rec["applicable"]
            if k3_active and not rec["applicable"] and S.has_nested(a["pre"]):
                rec["lib_applicable"] = pddl.holds(S.k3_view(a["pre"]), env, st, world)
        except (pddl.Undefined, pddl.Ambiguous) as e:
            rec["why"] = type(e).__name__
            dead = True
            out.append(rec)
            continue
        if rec["applicable"] or rec["lib_applicable"]:
            try:
                eff = a["eff"]
                rec["post"] = pddl.successor(eff, env, st, world)
                if k3_active:
                    m = pddl.successor(S.k3_effect(eff), env, st, world)
                    if not pddl.states_equal(m, rec["post"]):
                        rec["why"] = "k3-effect-differs"
                        rec["post_model"] = m
            except (pddl.Undefined, pddl.Ambiguous, pddl.Conflict) as e:
                rec["why"] = type(e).__name__
                rec["post"] = None
                dead = True
                out.append(rec)
                continue
            st = rec.get("post_model", rec["post"])
            if pddl.beyond_float(st):
                # exact rationals keep growing where floats lose precision / overflow: not judged beyond this point
                rec["why"] = rec["why"] or "Magnitude"
                dead = True
        else:
            rec["post"] = st
        out.append(rec)
    return out


def call_text(step, case_mode=0):
    s = "(" + " ".join(step) + ")"
    return s.upper() if case_mode == 1 else s
