"""C03 - applying an action yields exactly the PDDL successor state, whatever the internal order.

Oracle: pv.ref.pddl.successor (exact rationals) versus Operator.apply; the returned state is
observed through State.serialize() read back by the independent S-expression reader.  Each case
is applied under several harness-owned iteration orders of the effect collections."""
from pv import ctx, sched
from pv.gen import domains as G
from pv.harness import (build_objects, build_state, lib_objects, parse_domain, read_lib_state,
                        state_via_problem, unjstate, BadState)
from pv.lib import lib_call
from pv.props import sem_common as S
from pv.ref import pddl
from pv.runner import Res

# thorough tier: the same streams under three string-hash seeds (the iteration order of the library's
# string-hashed sets is part of the implicit schedule)
CONFIGS_THOROUGH = {"hash0": {"PYTHONHASHSEED": "0"}, "hash1": {"PYTHONHASHSEED": "1"}, "hash2": {"PYTHONHASHSEED": "2"}}

ID = "C03"
RULE = ("generated fragment-F domains with unconditional, conditional (when) and universally quantified (forall-when) "
        "discrete and numeric effects x states (also large values, and facts additionally stored under their arguments' own "
        "subtypes as earlier add effects leave them, and empty entries for predicates without facts as delete effects leave them) x type-correct calls, restricted to calls the reference finds "
        "applicable and whose simultaneously firing effects are consistent (others counted as skipped); every case is "
        "applied under the natural order and under drawn permutations of the lifted and grounded effect collections "
        "and of the object table (every other permuted run passes allow_inapplicable_actions=True, which must not matter for an applicable action; the first permuted run and every third natural run apply the Operator object a second time).  Non-trivial = the action has a conditional or quantified effect whose condition is "
        "false for one instantiation and true for another (over the probes of the case), or a numeric effect reading "
        "a fluent that another effect of the same action writes.  Distinct by (action, call, state).")
ASSUMPTIONS = ["object table = problem objects plus domain constants",
               "fluent values compared with relative tolerance 1e-9",
               "cases where two firing effects write one fluent, or add and delete one atom from different effect "
               "groups, are outside the property's quantifier and skipped (counted)"]

N_SCHEDULES = 3


def lib_apply(domain, action_name, args, objs, state, ints=None, k=None, allow=False, warm_state=None):
    from pddl_plus_parser.models import Operator

    def run():
        action = domain.actions[action_name]
        o = objs
        if k is not None:
            sched.permute_action(action, ints, k)
            o = sched.permute_dict(objs, ints, k)
        op = Operator(action, domain, list(args), o)
        if k is not None:
            op.ground()
            sched.permute_operator(op, ints, k)
        if warm_state is not None:
            # the same Operator object applied before, to an equal state built separately: an operator may be
            # applied any number of times
            op.apply(warm_state)
        return read_lib_state(op.apply(state, allow_inapplicable_actions=True) if allow else op.apply(state))
    return lib_call(run)


def reads_written(eff):
    """A numeric effect reads a fluent (by name) that another effect writes."""
    writes, reads = [], []
    for x in pddl.walk(eff):
        if x and x[0] in pddl.ASSIGN_OPS:
            writes.append(x[1][0])
            names = {y[0] for y in pddl.walk(x[2]) if y and y[0] not in pddl.NUM_OPS}
            reads.append(names)
    for i, r in enumerate(reads):
        for j, w in enumerate(writes):
            if i != j and w in r:
                return True
    return False


def cond_profile(eff, env, st, world):
    """(any condition instance true, any false) over when/forall-when instances."""
    t = f = False

    def go(e, env):
        nonlocal t, f
        if not e:
            return
        if e[0] == "and":
            for x in e[1:]:
                go(x, env)
        elif e[0] == "forall":
            for v, qt in pddl.parse_typed_vars(e[1]):
                for o in world.of_type(qt):
                    go(e[2], {**env, v: o})
        elif e[0] == "when":
            try:
                if pddl.holds(e[1], env, st, world):
                    t = True
                else:
                    f = True
            except (pddl.Undefined, pddl.Ambiguous):
                pass
    go(eff, env)
    return t, f


def check_case(case):
    res = Res()
    dom, objects = case["dom"], case["objects"]
    pddl.validate_domain(dom, objects)
    pddl.validate_probes(dom, objects, case["probes"])
    ok, domain = parse_domain(dom, S.layout_of(case))
    if not ok:
        res.skipped = "domain-parse-error(C01)"
        return res
    world = pddl.World(dom, objects)
    objs = lib_objects(domain, build_objects(domain, objects))
    ints = case.get("perm") or [0]
    seen_t = seen_f = False
    feats = set()
    keyparts = []
    for i, pr in enumerate(case["probes"]):
        a = pddl.find_action(dom, pr["action"])
        st = unjstate(pr["state"])
        env = {p: o for (p, _), o in zip(a["params"], pr["args"])}
        try:
            if not pddl.holds(a["pre"], env, st, world):
                res.skips.append("inapplicable")
                continue
            exp = pddl.successor(a["eff"], env, st, world)
            if pddl.cancellation_in_effects(a["eff"], env, st, world):
                res.skips.append("cancellation-beyond-float-precision")
                continue
        except (pddl.Undefined, pddl.Ambiguous, pddl.Conflict) as e:
            res.skips.append(type(e).__name__)
            continue
        model = None
        if ctx.active(S.F_NESTED):
            try:
                model = pddl.successor(S.k3_effect(a["eff"]), env, st, world)
            except (pddl.Conflict, pddl.Undefined):
                model = "any"   # under the defect model the firing effects conflict / read undefined values
            except pddl.Ambiguous:
                model = None
        t, f = cond_profile(a["eff"], env, st, world)
        seen_t, seen_f = seen_t or t, seen_f or f
        feats |= {x for x in S.features_of(a) if x.startswith("eff-")}
        if reads_written(a["eff"]):
            feats.add("eff-read-written")
        keyparts.append((pr["action"], tuple(pr["args"]), str(pr["state"])))
        info = {"action": a, "args": pr["args"], "state": pr["state"]}
        for k in [None] + list(range(N_SCHEDULES)):
            if i == 0 and k is None:
                okp, ps = lib_call(state_via_problem, domain, dom, objects, st)
                if not okp:
                    res.skipped = "problem-parse-error(C05)"
                    return res
                state = ps[1]
            else:
                # odd probes: facts also stored under their arguments' own (sub)types, as earlier add effects leave them
                state = build_state(domain, world, st, variants=(i % 2 == 1), empty_groups=(i % 3 == 0 or k == 1))
            # the action is applicable: allow_inapplicable_actions must make no difference (every other schedule)
            warm = build_state(domain, world, st) if (k == 0 or (k is None and i % 3 == 2)) else None
            ok2, got = lib_apply(domain, a["name"], pr["args"], objs, state, ints, k, allow=(k is not None and k % 2 == 1), warm_state=warm)
            tag = "C03/successor" if k is None else "C03/successor-permuted"
            if not ok2 and model == "any":
                res.known.append(S.F_NESTED)
                break
            if not ok2:
                if got.type == "BadState":
                    res.bad(f"{tag}/unreadable-state", {**info, "error": repr(got)})
                else:
                    res.bad(f"{tag}/exception:{got.key}", {**info, "error": repr(got)})
                break
            if pddl.states_equal(exp, got):
                continue
            if model == "any" or (model is not None and pddl.states_equal(model, got)):
                res.known.append(S.F_NESTED)
                continue
            d = pddl.state_diff(exp, got)
            kinds = "+".join(sorted(x.split("(")[0] for x in d))
            res.bad(f"{tag}/{kinds}", {**info, "schedule": k, "diff": d})
            break
    res.classes = sorted(feats) or ["plain"]
    res.nontrivial = (seen_t and seen_f) or ("eff-read-written" in feats)
    res.key = str(keyparts)
    res.evals = len(keyparts) * (1 + N_SCHEDULES)
    return res


def gen(ch, tier):
    ft = G.feats(max_leaves=2, forall_pre=False, nested=ch.flag(0.3), max_actions=1, p_when=0.7, p_forall_eff=0.5, p_long_number=0.1, long_decimals=6, p_big_values=0.1, p_shadow=0.1)
    return S.gen_sem_case(ch, tier, ft, n_probes=8, force=0.85, same_action=True)


def plan(tier):
    if tier == "quick":
        return {"streams": {"main": 12000}, "shards": 16}
    return {"streams": {"main": 80000}, "shards": 5}    # per hash-seed configuration
