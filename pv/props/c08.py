"""C08 - exporting a domain and parsing it back preserves vocabulary and behaviour.

Oracle: round trip.  text -> d1 -> DomainExporter -> text2 -> d2 -> DomainExporter -> text3 -> d3.
Vocabulary of d2 equals d1's and the source; every action of d2 read back through public attributes
is equivalent (canonical structure, else behaviour under the reference interpreter) to d1's read-back
and to the source; d3 equals d2 (a second round changes nothing); the exported text does not depend
on the iteration order of the underlying sets.  Shipped domain files are round-tripped too."""
import glob
import json
from fractions import Fraction
import os

from pv import ctx, sched
from pv.gen import domains as G
from pv.harness import parse_domain
from pv.lib import lib_call, parse_domain_text, write_tmp
from pv.props import c01, sem_common as S
from pv.ref import extract, pddl, sexpr
from pv.runner import Res

# thorough tier: the same streams under three string-hash seeds (the iteration order of the library's
# string-hashed sets is part of the implicit schedule)
CONFIGS_THOROUGH = {"hash0": {"PYTHONHASHSEED": "0"}, "hash1": {"PYTHONHASHSEED": "1"}, "hash2": {"PYTHONHASHSEED": "2"}}

ID = "C08"
RULE = ("fragment-F domains with numeric constants on the exporter's grid (2 decimals in conditions, 4 in effects) and "
        "every domain file shipped under tests/ that the library parses; export repeated under permuted iteration "
        "orders of operand and effect sets.  Non-trivial = the domain contains a negative literal, (in)equality, "
        "nested group, when, forall or a non-integer constant (generated), or is a shipped file.  Read-backs that differ structurally are judged on the probes plus states placed on either side of every numeric comparison's boundary.  Distinct by source text.")
ASSUMPTIONS = ["numeric conditions in nested / when / forall positions are of the shape (cmp fterm const|fterm), which the "
               "simplifier used when printing them maps to itself (richer shapes: finding K5)",
               "shipped files are compared first parse versus second parse (no independent reading of the files)"]

REPO = os.environ.get("PV_REPO", "/repo")
F_K5 = "K5-nested-conditions-through-simplifier"


def rich_numeric_in_groups(dom):
    """A numeric condition other than (cmp fterm number|fterm), with distinct sides, inside a nested and/or/forall
    group or a when condition: such conditions are printed through the simplifier (known finding K5)."""
    def mono(e):
        """(fluent, exact product of the constants) for a fluent multiplied by constants, else None."""
        if isinstance(e, str):
            return None
        if e[0] not in pddl.NUM_OPS:
            return tuple(e), Fraction(1)
        if e[0] != "*" or len(e) != 3:
            return None
        a, b = e[1], e[2]
        if isinstance(a, str) and pddl.is_number(a):
            a, b = b, a
        if not (isinstance(b, str) and pddl.is_number(b)):
            return None
        m = mono(a)
        return None if m is None else (m[0], m[1] * Fraction(b))

    def simple(c):
        if isinstance(c[1], list) and c[1][0] not in pddl.NUM_OPS and \
                (isinstance(c[2], str) or c[2][0] not in pddl.NUM_OPS) and c[1] != c[2]:
            return True
        # simplifier-stable as well: an equality the library eliminates with, (= (+ A B) 0 | number | C), over plain fluents (and the same over a difference)
        plain = lambda e: isinstance(e, list) and e and e[0] not in pddl.NUM_OPS
        if c[0] == "=" and isinstance(c[1], list) and c[1][0] in ("+", "-") and len(c[1]) == 3 and plain(c[1][1]) and plain(c[1][2]) \
                and c[1][1] != c[1][2] and ((isinstance(c[2], str) and pddl.is_number(c[2]) and (Fraction(c[2]) * 100).denominator == 1)
                                            or (plain(c[2]) and c[2] not in (c[1][1], c[1][2]))):
            return True
        # ... and two monomials over different fluents whose coefficients have <= 2 decimals
        m1, m2 = mono(c[1]), mono(c[2])
        if c[0] != "=" and m1 is not None and m1[1] != 0 and (m1[1] * 100).denominator == 1 and isinstance(c[2], str) and pddl.is_number(c[2]) \
                and (Fraction(c[2]) * 100).denominator == 1:
            return True      # a lone product against a number on the grid (an equality is divided through and rounded: K5)
        return m1 is not None and m2 is not None and m1[0] != m2[0] and m1[1] != 0 and m2[1] != 0 and \
            (m1[1] * 100).denominator == 1 and (m2[1] * 100).denominator == 1

    def scan(c, inside):
        if not c:
            return False
        h = c[0]
        if h in ("and", "or"):
            return any(scan(x, True) for x in c[1:])
        if h == "forall":
            return scan(c[2], True)
        if h == "not":
            return False
        if h in pddl.CMP_OPS and not (h == "=" and isinstance(c[1], str)):
            return inside and not simple(c)
        return False
    for a in dom["actions"]:
        pre = a.get("pre") or ["and"]
        if any(scan(x, True) for x in pre[1:] if x and x[0] in ("and", "or", "forall")):
            return True
        for w in S.when_conditions(a["eff"]):
            if scan(w if w[0] == "and" else ["and", w], True):
                return True
    return False


def export(domain, via_file=False):
    from pddl_plus_parser.exporters import DomainExporter
    if via_file:
        p = write_tmp("", suffix=".pddl")
        DomainExporter().export_domain(domain, p)
        return open(p).read()
    return DomainExporter().extract_domain(domain)


def actions_equivalent(world, dom_like_actions, domain_a, domain_b, probes):
    """Compare read-backs of every action of two library domains."""
    out = []
    for name in domain_a.actions:
        if name not in domain_b.actions:
            out.append((name, "missing", None))
            continue
        oka, xa = lib_call(extract.x_action, domain_a.actions[name])
        okb, xb = lib_call(extract.x_action, domain_b.actions[name])
        if not oka or not okb:
            out.append((name, "extract", repr(xa if not oka else xb)))
            continue
        pa, pre_a, eff_a = xa
        pb, pre_b, eff_b = xb
        if pa != pb:
            out.append((name, "signature", {"first": pa, "second": pb}))
            continue
        if c01.canon_cond(pre_a) == c01.canon_cond(pre_b) and c01.canon_eff(eff_a) == c01.canon_eff(eff_b):
            continue
        if world is None:
            out.append((name, "structure", {"first": [pre_a, eff_a], "second": [pre_b, eff_b]}))
            continue
        why = c01.behaviour_differs(world, pa, pre_a, eff_a, pre_b, eff_b, probes, name)
        if why == "undecided":
            continue
        if why:
            part = why if why in ("pre", "eff") else "structure"
            out.append((name, part, {"first": pre_a if part == "pre" else eff_a, "second": pre_b if part == "pre" else eff_b}))
    for name in domain_b.actions:
        if name not in domain_a.actions:
            out.append((name, "extra", None))
    return out


def vocab_equal(da, db):
    oka, va = lib_call(extract.x_vocab, da)
    okb, vb = lib_call(extract.x_vocab, db)
    if not oka or not okb:
        return [("extract", repr(va if not oka else vb))]
    out = []
    if c01.type_closure(va["types"]) != c01.type_closure(vb["types"]):
        out.append(("types", {"first": va["types"], "second": vb["types"]}))
    for k in ("constants", "predicates", "functions", "actions"):
        if va[k] != vb[k]:
            out.append((k, {"first": va[k], "second": vb[k]}))
    if getattr(da, "name", None) != getattr(db, "name", None):
        out.append(("name", {"first": getattr(da, "name", None), "second": getattr(db, "name", None)}))
    return out


def check_case(case):
    res = Res()
    if case.get("kind") == "file":
        return check_file(case, res)
    dom, objects = case["dom"], case["objects"]
    pddl.validate_domain(dom, objects)
    pddl.validate_probes(dom, objects, case["probes"])
    for a in dom["actions"]:
        for f, digits in [(a.get("pre") or [], 2)] + [(w, 2) for w in S.when_conditions(a["eff"])]:
            for x in pddl.walk(f):
                if any(isinstance(tk, str) and pddl.is_number(tk) and (Fraction(tk) * 10 ** digits).denominator != 1 for tk in x):
                    raise pddl.Invalid("a condition's constant is off the exporter's grid (2 decimals)")
        for x in pddl.walk(a["eff"]):
            if x and x[0] in pddl.ASSIGN_OPS and len(x) == 3:
                for y in pddl.walk(x[2]) if isinstance(x[2], list) else [[x[2]]]:
                    if any(isinstance(tk, str) and pddl.is_number(tk) and (Fraction(tk) * 10 ** 4).denominator != 1 for tk in y):
                        raise pddl.Invalid("an effect's constant is off the exporter's grid (4 decimals)")
    if rich_numeric_in_groups(dom) and ctx.active(F_K5):
        res.known.append(F_K5)          # excluded by construction, counted; the committed reproducer exercises it
        res.skipped = "K5-trigger"
        return res
    ok, d1 = parse_domain(dom, S.layout_of(case))
    if not ok:
        res.skipped = "domain-parse-error(C01)"
        return res
    world = pddl.World(dom, objects)
    probes = case["probes"] + c01.derived_probes(case, dom, objects)
    feats = set()
    for a in dom["actions"]:
        feats |= S.features_of(a)
    if any("." in t for a in dom["actions"] for f in (a["pre"] or [], a["eff"]) for x in pddl.walk(f) for t in x if isinstance(t, str)):
        feats.add("decimal-constant")
    res.classes = sorted(feats) or ["plain"]
    res.nontrivial = bool(feats - {"eff-num", "pre-num"}) or "decimal-constant" in feats
    src_text = sexpr.flat(pddl.domain_tree(dom))
    res.key = src_text
    info = {"source": src_text}
    # first parse must already be faithful (C01); otherwise the round trip says nothing about the exporter
    if c01.vocab_diffs(dom, d1) or any([x for x in c01.compare_action(world, a, d1.actions[a["name"]], probes) if x[0] != "UNDECIDED"]
                                        for a in dom["actions"] if a["name"] in d1.actions):
        res.skipped = "first-parse-unfaithful(C01)"
        return res
    okx, text2 = lib_call(export, d1, case.get("via_file", False))
    if not okx:
        res.bad(f"C08/export/exception:{text2.key}", {**info, "error": repr(text2)})
        return res
    try:
        sexpr.read(text2)
    except sexpr.Reject as e:
        res.bad("C08/export/unbalanced-text", {**info, "exported": text2[:1500], "error": str(e)})
        return res
    okp, d2 = lib_call(parse_domain_text, text2)
    if not okp:
        res.bad(f"C08/reparse/exception:{d2.key}", {**info, "exported": text2[:2000], "error": repr(d2)})
        return res
    for what, detail in c01.vocab_diffs(dom, d2, ordered=False):
        res.bad(f"C08/vocabulary/{what}", {**info, "exported": text2[:1500], "detail": detail})
    if res.disc:
        return res
    for a in dom["actions"]:
        if a["name"] not in d2.actions:
            res.bad("C08/action-lost", {**info, "action": a["name"]})
            continue
        for part, detail in c01.compare_action(world, a, d2.actions[a["name"]], probes):
            if part == "UNDECIDED":
                res.skips.append("equivalence-undecided")
                continue
            res.bad(f"C08/behaviour/{part}", {**info, "action": a["name"], "exported": text2[:2000], "detail": detail})
    if res.disc:
        return res
    # second round: nothing changes
    okx3, text3 = lib_call(export, d2)
    if not okx3:
        res.bad(f"C08/export2/exception:{text3.key}", {**info, "error": repr(text3)})
        return res
    okp3, d3 = lib_call(parse_domain_text, text3)
    if not okp3:
        res.bad(f"C08/reparse2/exception:{d3.key}", {**info, "exported": text3[:2000], "error": repr(d3)})
        return res
    for what, detail in vocab_equal(d2, d3):
        res.bad(f"C08/second-round/vocabulary-{what}", {**info, "detail": detail})
    for name, part, detail in actions_equivalent(world, None, d2, d3, probes):
        res.bad(f"C08/second-round/{part}", {**info, "action": name, "detail": detail})
    if res.disc:
        return res
    # iteration orders of the underlying sets must not matter
    ints = case.get("perm") or [1, 2, 3]
    for k in range(2):
        okq, dq = parse_domain(dom, S.layout_of(case))
        if not okq:
            break
        for act in dq.actions.values():
            sched.permute_action(act, ints, k)
            permute_conditions(act.preconditions.root, ints, k)
        okx4, text4 = lib_call(export, dq)
        if not okx4:
            res.bad(f"C08/export-permuted/exception:{text4.key}", {**info, "error": repr(text4)})
            break
        okp4, d4 = lib_call(parse_domain_text, text4)
        if not okp4:
            res.bad(f"C08/reparse-permuted/exception:{d4.key}", {**info, "exported": text4[:2000], "error": repr(d4)})
            break
        bad = vocab_equal(d2, d4) or actions_equivalent(world, None, d2, d4, probes)
        if bad:
            res.bad("C08/order-dependent-export", {**info, "detail": str(bad[0])[:1500]})
            break
    res.evals = 5
    return res


def permute_conditions(cond, ints, k):
    from pddl_plus_parser.models import Precondition
    for o in list(cond.operands):
        if isinstance(o, Precondition):
            permute_conditions(o, ints, k)
    items = list(cond.operands)
    cond.operands = sched.PermutedSet(items, sched.perm_from(ints, len(items), k + 300))
    for attr in ("equality_preconditions", "inequality_preconditions"):
        items = list(getattr(cond, attr))
        setattr(cond, attr, sched.PermutedSet(items, sched.perm_from(ints, len(items), k + 400)))


# ---- shipped files -------------------------------------------------------------------------------------

def shipped_domains():
    out = []
    for path in sorted(glob.glob(os.path.join(REPO, "tests", "**", "*.pddl"), recursive=True)):
        try:
            tree = sexpr.read(open(path, encoding="utf-8", errors="ignore").read())
        except (sexpr.Reject, OSError):
            continue
        if len(tree) > 1 and isinstance(tree[1], list) and tree[1] and tree[1][0] == "domain":
            out.append(os.path.relpath(path, REPO))
    return out


def check_file(case, res):
    from pathlib import Path
    from pddl_plus_parser.lisp_parsers import DomainParser
    path = os.path.join(REPO, case["domain_file"])
    ok, d1 = lib_call(lambda: DomainParser(Path(path)).parse_domain())
    if not ok:
        res.skipped = "shipped-domain-does-not-parse"
        return res
    res.classes = ["shipped-file"]
    res.nontrivial = True
    res.key = case["domain_file"]
    info = dict(case)
    okx, text2 = lib_call(export, d1, True)
    if not okx:
        res.bad(f"C08/file/export-exception:{text2.key}", {**info, "error": repr(text2)})
        return res
    okp, d2 = lib_call(parse_domain_text, text2)
    if not okp:
        res.bad(f"C08/file/reparse-exception:{d2.key}", {**info, "error": repr(d2), "exported": text2[:1500]})
        return res
    for what, detail in vocab_equal(d1, d2):
        res.bad(f"C08/file/vocabulary-{what}", {**info, "detail": str(detail)[:1500]})
    for name, part, detail in actions_equivalent(None, None, d1, d2, []):
        res.bad(f"C08/file/{part}", {**info, "action": name, "detail": str(detail)[:2000]})
    return res


def chunk_cases(tier, chunk):
    part, nparts = chunk
    for i, d in enumerate(shipped_domains()):
        if i % nparts == part:
            yield {"kind": "file", "domain_file": d}


def gen(ch, tier):
    ft = G.feats(max_actions=2, division=False, rich_when_numeric=False, rich_nested_numeric=False, p_long_number=0.1, long_decimals=2, long_decimals_eff=4, nested_monomials=True)
    case = S.gen_sem_case(ch, tier, ft, n_probes=3)
    case["via_file"] = ch.flag(0.3)
    return case


def plan(tier):
    n = 1500 if tier == "quick" else 10000      # thorough: per hash-seed configuration
    return {"exhaustive": [(i, 16) for i in range(16)], "streams": {"main": n}, "shards": 16 if tier == "quick" else 5,
            "exhaustive_is_complete": True, "exhaustive_note": "every domain file shipped under tests/"}
