"""C13 - simplified numeric conditions are valid PDDL and mean the same as the originals.

Oracle: (1) the output text is read by the library's own tokenizer + construct_expression_tree and
by the independent reader: only binary + - * /, leaves are numbers or fluent terms of the input;
(2) exact evaluation at rational points: with D_in = lhs - rhs of the input and D_out of the output,
D_out(p) must equal k * D_in(p) (k > 0 for inequalities and bare expressions, k != 0 for equalities,
one k for all points) up to the rounding the requested number of decimals allows, on points that
satisfy the equalities used for elimination; a condition may be omitted only if it is implied."""
import copy
import json
import os
from fractions import Fraction

from pv import ctx
from pv.chooser import RChooser
from pv.lib import lib_call
from pv.ref import poly, sexpr
from pv.runner import Res

ID = "C13"
RULE = ("polynomial conditions of degree <= 3 and quotients by a monomial over <= 4 fluents (names with dashes, "
        "underscores, digits; lifted and grounded arguments), coefficients that are small integers, short decimals, "
        "near-integers k +- 1e-5, sub-precision values and constants of drawn magnitude (up to 1e7) with 0-7 decimals, all comparison operators, 0-2 linear equalities usable for "
        "elimination, decimal digits 0..6 and the default; entry points simplify_complex_numeric_expression, "
        "simplify_inequality, simplify_equality, simplify_complex_numerical_pddl_expression and "
        "Precondition.print(should_simplify=True); 1 case in 5 is judged after the same condition and its twin spelling "
        "(?x <-> x) went through the same entry point in the same process.  Non-trivial = >= 2 fluents and a product, or an equality used "
        "for elimination.  Distinct by case.")
ASSUMPTIONS = ["24 evaluation points per case with coordinates in +-{1/2,1,3/2,2,3,4}; points where the input is "
               "undefined are skipped",
               "rounding allowance per point: (number of leaves of the output) * 10^-d * max(|v|,1/|v|)^degree"]
CONFIGS = {"default": {}, "precision-env": {"NUMERIC_PRECISION": "3"}}

F_K4 = "K4-simplifier-symbols"        # fluent-free sides, parenthesised constant sub-expressions, name collisions
F_D14 = "D14-coefficient-rounding"

NAMES = ["fuel", "load-limit", "x2", "cost_total", "dist", "w", "cap-1", "lvl_a2"]
ARGSETS = [[], ["?x"], ["?x", "?y"], ["t1"], ["a-b", "c_d"], ["?p1"]]
COEFS_INT = ["1", "2", "3", "-1", "-2", "5", "10"]
COEFS_DEC = ["0.5", "1.5", "0.25", "-0.5", "2.5", "0.1", "0.75"]
COEFS_NEAR = ["2.99999", "1.00001", "-0.99999", "4.00001"]
COEFS_TINY = ["0.00001", "0.0004", "-0.00002"]
PVALS = [Fraction(x) for x in ["1/2", "1", "3/2", "2", "3", "4", "-1/2", "-1", "-3/2", "-2", "-3", "-4"]]


def term_str(t):
    return " ".join(t)


def functions_for(fluents):
    from pddl_plus_parser.models import PDDLFunction, ObjectType
    out = {}
    for name, args in fluents:
        out[name] = PDDLFunction(name=name, signature={f"?a{i}": ObjectType for i in range(len(args))})
    return out


def tree_of(ast, funcs):
    from pddl_plus_parser.models import NumericalExpressionTree, construct_expression_tree
    return NumericalExpressionTree(construct_expression_tree(ast, funcs))


def terms_in(e, acc=None):
    acc = set() if acc is None else acc
    if isinstance(e, list):
        if e and e[0] in ("+", "-", "*", "/", "=", "<", "<=", ">", ">=") and len(e) == 3:
            terms_in(e[1], acc)
            terms_in(e[2], acc)
        else:
            acc.add(term_str(e))
    return acc


def n_leaves(e):
    if isinstance(e, str):
        return 1
    if e and e[0] in ("+", "-", "*", "/", "=", "<", "<=", ">", ">=") and len(e) == 3:
        return n_leaves(e[1]) + n_leaves(e[2])
    return 1


def structure_problems(out_ast, allowed_terms, root_ops):
    """Oracle (1) on the independent reading of the output."""
    bad = []

    def go(e, top):
        if isinstance(e, str):
            if not poly.is_number(e):
                bad.append(f"leaf is not a number: {e}")
            return
        if not e:
            bad.append("empty list")
            return
        h = e[0]
        if top and root_ops is not None:
            if h not in root_ops:
                bad.append(f"root operator {h}")
                return
            if len(e) != 3:
                bad.append("comparison is not binary")
                return
            go(e[1], False)
            go(e[2], False)
            return
        if h in ("+", "-", "*", "/"):
            if len(e) != 3:
                bad.append(f"operator {h} with {len(e) - 1} operands")
                return
            go(e[1], False)
            go(e[2], False)
            return
        if isinstance(h, str) and all(isinstance(x, str) for x in e) and term_str(e) in allowed_terms:
            return
        bad.append(f"unknown node {sexpr.flat(e)[:60]}")
    go(out_ast, True)
    return bad


def make_points(case, terms, n=24):
    """Deterministic points; the first half satisfy the elimination equalities."""
    seed = int.from_bytes(json.dumps(case, sort_keys=True).encode()[:0] or b"\x01", "big")
    import hashlib
    seed = int.from_bytes(hashlib.blake2b(json.dumps(case, sort_keys=True).encode(), digest_size=6).digest(), "big")
    ch = RChooser(seed)
    pts = []
    eqs = case.get("equalities") or []
    for i in range(n):
        p = {t: ch.choice(PVALS) for t in sorted(terms)}
        okp = True
        if case.get("shared_elimination") and len(eqs) == 2:
            # a := c1 - rest1, then the second equality is solved for its own fluent: t2 := (c2 - a) / k
            try:
                a = term_str(eqs[0][1][1])
                p[a] = poly.ev(eqs[0][2], p) - poly.ev(eqs[0][1][2], p)
                t2, k = eqs[1][1][2][1], Fraction(eqs[1][1][2][2])
                p[term_str(t2)] = (poly.ev(eqs[1][2], p) - p[a]) / k
            except (ZeroDivisionError, KeyError, TypeError, ValueError):
                okp = False
            eqs_iter = []
        else:
            eqs_iter = list(reversed(eqs))
        for eq in eqs_iter:
            # (= (+ a rest) c): a := c - rest (later equalities first: their fluent may occur in earlier ones)
            a, rest, c = eq[1][1], eq[1][2], eq[2]
            try:
                p[term_str(a)] = poly.ev(c, p) - poly.ev(rest, p)
            except ZeroDivisionError:
                okp = False
        # conditions (= (- a rest) c) over a fluent not bound above are satisfied too (a := c + rest): the
        # remaining conditions then decide the conjunction
        bound = {term_str(eq[1][1]) for eq in eqs}
        for c in case.get("conds") or []:
            if c[0] == "=" and isinstance(c[1], list) and c[1][0] == "-" and isinstance(c[1][1], list) and \
                    c[1][1][0] not in ("+", "-", "*", "/"):
                a = term_str(c[1][1])
                if a in bound or a in terms_in(c[1][2]) or a in terms_in(c[2]):
                    continue
                bound.add(a)
                try:
                    p[a] = poly.ev(c[2], p) + poly.ev(c[1][2], p)
                except ZeroDivisionError:
                    okp = False
        if okp:
            pts.append(p)
    return pts


def delta(cond, p):
    return poly.ev(cond[1], p) - poly.ev(cond[2], p)


def mult_depth(e):
    if isinstance(e, str):
        return 0
    if e and e[0] in ("*", "/") and len(e) == 3:
        return mult_depth(e[1]) + mult_depth(e[2])
    if e and e[0] in ("+", "-", "=", "<", "<=", ">", ">=") and len(e) == 3:
        return max(mult_depth(e[1]), mult_depth(e[2]))
    return 1


def propagated(e, p, half):
    """(value, bound on the change of the value) at point p when every printed constant of e may be off by
    `half` (first-order interval propagation, exact rationals).  None = a divisor may vanish within the bound."""
    if isinstance(e, str):
        # (a constant is computed and printed in doubles: beyond ~15 significant digits it is off by its own
        # resolution, which for coefficients of 1e15 is more than any requested decimal)
        return Fraction(e), max(half, abs(Fraction(e)) / 10 ** 14)
    h = e[0]
    if h in ("+", "-", "*", "/", "=", "<", "<=", ">", ">=") and len(e) == 3:
        a, b = propagated(e[1], p, half), propagated(e[2], p, half)
        if a is None or b is None:
            return None
        (va, ea), (vb, eb) = a, b
        if h == "+":
            return va + vb, ea + eb
        if h == "*":
            return va * vb, abs(va) * eb + abs(vb) * ea + ea * eb
        if h == "/":
            if abs(vb) <= eb:
                return None
            return va / vb, (abs(va) * eb + abs(vb) * ea) / (abs(vb) * (abs(vb) - eb))
        return va - vb, ea + eb
    return p[term_str(e)], Fraction(0)


def allowance(out_ast, p, digits):
    """Largest change of D_out that rounding every printed coefficient by half a unit of the last decimal
    can cause at point p: the propagated bound (large coefficients multiply the rounding of their co-factors),
    never below the flat per-leaf bound."""
    big = max([max(abs(v), 1 / abs(v)) if v else Fraction(1) for v in p.values()] + [Fraction(1)])
    half = Fraction(1, 2 * 10 ** digits)
    flat = n_leaves(out_ast) * half * big ** max(1, min(mult_depth(out_ast), 4)) + Fraction(1, 10 ** 9)
    try:
        pr = propagated(out_ast, p, half)
    except (KeyError, ZeroDivisionError, ValueError):
        pr = None
    if pr is None:
        return flat
    return max(flat, pr[1] + Fraction(1, 10 ** 9))


def coef_mass(e):
    """Product of max(1, |c|) over the constants of e: no normalisation divides by more than this."""
    if isinstance(e, str):
        return max(Fraction(1), abs(Fraction(e))) if poly.is_number(e) else Fraction(1)
    m = Fraction(1)
    for x in e[1:] if e and e[0] in ("+", "-", "*", "/", "=", "<", "<=", ">", ">=") else []:
        m *= coef_mass(x)
    return m


def judge_equivalence(res, tag, info, in_cond, out_ast, points, digits, need_positive):
    """D_out == k * D_in on the points (see module docstring)."""
    k = None
    k_err = Fraction(0)
    checked = 0
    for p in points:
        try:
            din = delta(in_cond, p)
        except ZeroDivisionError:
            continue
        half = Fraction(1, 2 * 10 ** digits)
        # rounding a constant inside a divisor moves the pole by up to half a unit: points where a divisor of either
        # side comes that close to zero cannot be compared (the values blow up there)
        try:
            if propagated(in_cond, p, half) is None or propagated(out_ast, p, half) is None:
                continue
        except (KeyError, ZeroDivisionError, ValueError):
            pass
        try:
            dout = delta(out_ast, p)
        except ZeroDivisionError:
            res.bad(f"C13/{tag}/output-undefined-where-input-defined", {**info, "point": {a: str(b) for a, b in p.items()}})
            return
        except KeyError as e:
            res.bad(f"C13/{tag}/output-mentions-unknown-fluent", {**info, "fluent": str(e)})
            return
        tol = allowance(out_ast, p, digits)
        # a coefficient that rounds to zero takes its whole term out of the output (0.5 at 0 decimals): the rounding
        # may have happened in the input's own form, so its propagated bound is allowed as well (scaled by k below)
        try:
            pin = propagated(in_cond, p, Fraction(1, 2 * 10 ** digits))
        except (KeyError, ZeroDivisionError, ValueError):
            pin = None
        tol_in = pin[1] if pin is not None else Fraction(0)
        if k is None:
            if abs(din) <= (tol + tol_in) * 4:
                if abs(dout) > (tol + tol_in) * 4 and abs(din) == 0:
                    res.bad(f"C13/{tag}/not-equivalent", {**info, "point": {a: str(b) for a, b in p.items()}, "input_delta": str(din), "output_delta": str(dout)})
                    return
                continue
            if abs(dout) <= (tol + tol_in) * 4:
                # the point happens to sit on the (rounded) output's zero set: no scale can be read off here
                continue
            k = dout / din
            k_err = (tol + tol_in * abs(k)) / abs(din)          # the scale itself is only known up to the rounding at this point
            if abs(k) < Fraction(1, 1000) / coef_mass(in_cond) or (need_positive and k < 0):
                res.bad(f"C13/{tag}/not-equivalent", {**info, "point": {a: str(b) for a, b in p.items()}, "input_delta": str(din), "output_delta": str(dout), "note": "sign or zero scale"})
                return
            if need_positive and abs(k - 1) > Fraction(1, 2):
                pass
            checked += 1
            continue
        if abs(dout - k * din) > tol * (1 + abs(k)) * 2 + tol_in * abs(k) * 2 + abs(din) * k_err * 2:
            res.bad(f"C13/{tag}/not-equivalent", {**info, "point": {a: str(b) for a, b in p.items()}, "input_delta": str(din), "output_delta": str(dout), "scale": str(k)})
            return
        checked += 1
    return checked


def read_output(text, funcs):
    """Both readers; returns (ast by independent reader, lib_ok, lib_error)."""
    from pddl_plus_parser.lisp_parsers import PDDLTokenizer
    from pddl_plus_parser.models import construct_expression_tree
    ast = sexpr.read(text)
    okl, err = lib_call(lambda: construct_expression_tree(PDDLTokenizer(pddl_str=text).parse(), funcs))
    return ast, okl, err


def validate(case):
    from pv.ref.pddl import Invalid
    fl = case["fluents"]
    names = [n for n, _ in fl]
    if len(set(names)) != len(names) or not fl:
        raise Invalid("fluents")
    allowed = {term_str([n] + a) for n, a in fl}

    def ok_expr(e):
        if isinstance(e, str):
            if not poly.is_number(e):
                raise Invalid("number")
            return
        if not isinstance(e, list) or not e:
            raise Invalid("expr")
        if e[0] in ("+", "-", "*", "/"):
            if len(e) != 3:
                raise Invalid("binary")
            ok_expr(e[1])
            ok_expr(e[2])
        elif term_str(e) not in allowed:
            raise Invalid("term")
    for c in case.get("conds", []):
        if c[0] not in ("=", "<", "<=", ">", ">=") or len(c) != 3:
            raise Invalid("cond")
        ok_expr(c[1])
        ok_expr(c[2])
        if isinstance(c[1], str):
            raise Invalid("first operand must not be a bare number")
    for eq in case.get("equalities", []):
        if eq[0] != "=" or not isinstance(eq[1], list) or eq[1][0] != "+" or isinstance(eq[1][1], str) or eq[1][1][0] in ("+", "-", "*", "/"):
            raise Invalid("equality shape")
        ok_expr(eq[1])
        ok_expr(eq[2])
        a = term_str(eq[1][1])
        if (a in terms_in(eq[1][2]) or a in terms_in(eq[2])) and not case.get("degenerate"):
            raise Invalid("eliminated fluent occurs on the other side")
    if "expr" in case:
        ok_expr(case["expr"])
        if isinstance(case["expr"], str):
            raise Invalid("expr must be a tree")
    if case.get("entry") == "print":
        # the library eliminates with every (= (+ a rest) c): those must be listed under "equalities",
        # for which satisfying evaluation points are constructed
        for c in case.get("conds", []):
            if c[0] == "=" and isinstance(c[1], list) and c[1] and c[1][0] == "+":
                raise Invalid("eliminable equality outside 'equalities'")
    return allowed


def vanishing_at(case, digits):
    """Some non-zero constant of the case (or a product of two of them, as expansion forms) rounds to zero at the
    requested decimals: the precondition of the 'printed as nothing' form of known finding K4."""
    consts = []
    for key in ("conds", "equalities"):
        for c in case.get(key, []):
            consts += [Fraction(x) for e in _walk(c) for x in e if isinstance(x, str) and poly.is_number(x)]
            consts += [Fraction(x) for x in c[1:] if isinstance(x, str) and poly.is_number(x)]
    if "expr" in case:
        consts += [Fraction(x) for e in _walk(case["expr"]) for x in e if isinstance(x, str) and poly.is_number(x)]
    consts = [abs(c) for c in consts if c != 0]
    half = Fraction(1, 2) / (10 ** digits)
    return any(c <= half for c in consts) or any(a * b <= half for a in consts for b in consts)


def missing_operand_only(probs):
    return bool(probs) and all(p.startswith("operator ") and p.endswith((" with 1 operands", " with 0 operands")) for p in probs)


def k4_trigger(case):
    """Shapes of the known finding K4 (excluded by construction, counted)."""
    def fluent_free(e):
        return not terms_in(e)

    def const_subexpr(e):
        if isinstance(e, str):
            return False
        if e[0] in ("+", "-", "*", "/") and len(e) == 3:
            if fluent_free(e):
                return True
            return const_subexpr(e[1]) or const_subexpr(e[2])
        return False
    conds = list(case.get("conds", [])) + list(case.get("equalities", []))
    for c in conds:
        if fluent_free(c[1]) or fluent_free(c[2]) and not isinstance(c[2], str):
            return "fluent-free-side"
        if const_subexpr(c[1]) or const_subexpr(c[2]):
            return "constant-subexpression"
    if "expr" in case and const_subexpr(case["expr"]):
        return "constant-subexpression"
    return None


TWIN = {"?x": "x", "?y": "y", "?p1": "p1", "t1": "?t1", "a-b": "?a-b", "c_d": "?c_d"}


def twin_case(case):
    """The same case over the twin spelling of every argument (?x <-> x): another, equally valid input whose
    fluents differ from the original's only by the question marks."""
    def tw(x):
        if isinstance(x, list):
            return [tw(y) for y in x]
        return TWIN.get(x, x) if isinstance(x, str) else x
    out = {k: (tw(v) if k in ("conds", "equalities", "expr") else v) for k, v in case.items() if k != "history"}
    out["fluents"] = [[n, [TWIN.get(a, a) for a in args]] for n, args in case["fluents"]]
    return out


def check_case(case):
    if case.get("history"):
        # a history of calls in one process: the same condition, its twin spelling, then the judged call - a call's
        # output must not depend on what was simplified before
        plain = {k: v for k, v in case.items() if k != "history"}
        validate(plain)
        coarse = dict(plain, digits=0) if plain.get("digits") != 0 else dict(plain, digits=1)
        for earlier in (coarse, plain, twin_case(plain)):      # the same condition printed more coarsely first
            try:
                check_case(earlier)
            except Exception:  # noqa: the earlier calls are judged when they are generated as cases of their own
                pass
        r = check_case(plain)
        r.classes = [c + "+history" for c in r.classes]
        r.key = "history:" + (r.key or json.dumps(plain, sort_keys=True))
        return r
    res = Res()
    allowed = validate(case)
    entry = case["entry"]
    d = case.get("digits")
    env_digits = os.environ.get("NUMERIC_PRECISION")
    digits = d if d is not None else (int(env_digits) if env_digits else 4)
    funcs = functions_for(case["fluents"])
    conds = case.get("conds", [])
    eqs = case.get("equalities", [])
    all_terms = set()
    for c in conds + eqs:
        terms_in(c, all_terms)
    if "expr" in case:
        terms_in(case["expr"], all_terms)
    prod = any(x and x[0] in ("*", "/") and terms_in(x[1]) and terms_in(x[2]) for c in conds + ([["=", case["expr"], "0"]] if "expr" in case else [])
               for x in _walk(c))
    res.nontrivial = (len(all_terms) >= 2 and prod) or bool(eqs)
    res.classes = [entry + ("+elim" if eqs else "")]
    res.key = json.dumps(case, sort_keys=True) + os.environ.get("PV_CONFIG", "")
    trig = k4_trigger(case)
    if trig and ctx.active(F_K4):
        res.known.append(F_K4)
        res.skipped = f"K4:{trig}"
        return res
    info = {"case": case}
    pts = make_points(case, all_terms)

    def defined_somewhere():
        for p in pts:
            try:
                for c in conds + eqs:
                    delta(c, p)
                if "expr" in case:
                    poly.ev(case["expr"], p)
                return True
            except ZeroDivisionError:
                continue
        return False
    if not defined_somewhere():
        res.skipped = "input-undefined-on-every-point"
        return res
    from pddl_plus_parser.models.numeric_symbolic_operations import (simplify_complex_numeric_expression, simplify_inequality,
                                                                      simplify_equality)
    kw = {} if d is None else {"decimal_digits": d}

    def finish(tag, text, in_cond, need_positive, root_ops):
        if text is None:
            return
        if root_ops is None and text.strip() == "" and ctx.active(F_K4):
            res.known.append(F_K4)
            return
        if root_ops is None and poly.is_number(text.strip()):
            ast, okl, err = text.strip(), True, None
        else:
            try:
                ast, okl, err = read_output(text, funcs)
            except sexpr.Reject as e:
                res.bad(f"C13/{tag}/output-unbalanced", {**info, "output": text})
                return
        if root_ops is not None and isinstance(ast, list) and ast and ast[0] in root_ops and ctx.active(F_K4) and \
                (len(ast) < 3 or isinstance(ast[1], str)):
            # defect model K4: a side that ends up without fluents is printed as a bare number / None
            res.known.append(F_K4)
            return
        if root_ops is None:
            ast_c = ["=", ast, "0"]
            probs = structure_problems(ast, allowed, None) if not isinstance(ast, str) else ([] if poly.is_number(ast) else ["bare token"])
        else:
            ast_c = ast
            probs = structure_problems(ast, allowed, root_ops)
        if probs and ctx.active(F_K4) and missing_operand_only(probs) and vanishing_at(case, digits):
            # defect model K4, sub-expression form: a divisor / factor whose every coefficient rounds to zero at the
            # requested decimals is printed as nothing, (/ 1 )
            res.known.append(F_K4)
            return
        if probs:
            res.bad(f"C13/{tag}/output-not-binary-pddl", {**info, "output": text, "problems": probs[:3]})
            return
        if not okl and not isinstance(ast, str):
            res.bad(f"C13/{tag}/output-rejected-by-library-reader:{err.key}", {**info, "output": text, "error": repr(err)})
            return
        judge_equivalence(res, tag, {**info, "output": text}, in_cond, ast_c, pts, digits, need_positive)

    if entry == "expr":
        e = case["expr"]
        okr, out = lib_call(lambda: simplify_complex_numeric_expression(tree_of(e, funcs).to_mathematical(), **kw))
        if not okr:
            res.bad(f"C13/expr/exception:{out.key}", {**info, "error": repr(out)})
            return res
        finish("expr", out, ["=", e, "0"], True, None)
        return res
    if entry == "tree":
        c = conds[0]
        okr, out = lib_call(lambda: tree_of(c, funcs).simplify_complex_numerical_pddl_expression(*([d] if d is not None else [])))
        if not okr:
            res.bad(f"C13/tree/exception:{out.key}", {**info, "error": repr(out)})
            return res
        finish("tree", out, c, True, (c[0],))
        return res
    if entry == "ineq":
        c = conds[0]
        assumptions = []
        for eq in eqs:
            a, rest, cc = eq[1][1], eq[1][2], eq[2]
            t = tree_of(eq, funcs)
            ee = t.extract_eliminated_expressions()
            if ee is None:
                from pv.ref.pddl import Invalid
                raise Invalid("equality not usable for elimination")
            assumptions.append(f"{ee[0].to_mathematical()} = {ee[1].to_mathematical()}")
        okr, out = lib_call(lambda: simplify_inequality(tree_of(c, funcs).to_mathematical(), c[0], assumptions, **kw))
        if not okr:
            res.bad(f"C13/ineq/exception:{out.key}", {**info, "error": repr(out)})
            return res
        finish("ineq", out, c, True, (c[0],))
        return res
    if entry == "eq":
        c = conds[0]
        okr, out = lib_call(lambda: simplify_equality(tree_of(c, funcs).to_mathematical()[1:-1], **kw))
        if not okr:
            res.bad(f"C13/eq/exception:{out.key}", {**info, "error": repr(out)})
            return res
        if out is None:
            # omitted as trivially true: the input must hold at every point
            for p in pts:
                try:
                    if delta(c, p) != 0:
                        res.bad("C13/eq/omitted-but-not-trivial", {**info, "point": {a: str(b) for a, b in p.items()}})
                        break
                except ZeroDivisionError:
                    continue
            return res
        finish("eq", out, c, False, ("=",))
        return res
    if entry == "print":
        from pddl_plus_parser.models import Precondition
        pre = Precondition("and")
        for c in eqs + conds:
            pre.add_condition(tree_of(c, funcs))
        okr, out = lib_call(lambda: pre.print(should_simplify=True, **kw))
        if not okr:
            res.bad(f"C13/print/exception:{out.key}", {**info, "error": repr(out)})
            return res
        try:
            ast = sexpr.read(out)
        except sexpr.Reject:
            res.bad("C13/print/output-unbalanced", {**info, "output": out})
            return res
        if not ast or ast[0] != "and":
            res.bad("C13/print/output-not-a-conjunction", {**info, "output": out})
            return res
        outs = ast[1:]
        k4_form = lambda o: isinstance(o, list) and o and o[0] in ("=", "<", "<=", ">", ">=") and (len(o) < 3 or isinstance(o[1], str))
        if ctx.active(F_K4) and any(k4_form(o) for o in outs):
            # the finding concerns the form (a side without fluents, which the library's own reader rejects), not the
            # meaning: a comparison that starts with a number is still judged for equivalence below
            res.known.append(F_K4)
            if any(len(o) != 3 or not pddl_number(o[1]) for o in outs if k4_form(o)):
                return res
        for o in outs:
            if ctx.active(F_K4) and k4_form(o):
                continue
            probs = structure_problems(o, allowed, ("=", "<", "<=", ">", ">="))
            if probs and ctx.active(F_K4) and missing_operand_only(probs) and vanishing_at(case, digits):
                res.known.append(F_K4)      # K4, sub-expression form (see above)
                return res
            if probs:
                res.bad("C13/print/output-not-binary-pddl", {**info, "output": out, "problems": probs[:3]})
                return res
            okl, err = lib_call(lambda: tree_of(_lower(o), funcs))
            if not okl:
                res.bad(f"C13/print/output-rejected-by-library-reader:{err.key}", {**info, "output": out, "error": repr(err)})
                return res
        # conjunction of outputs <=> conjunction of inputs on the points (margins avoid rounding-sensitive points)
        both = set()
        for p in pts:
            try:
                vin = [_truth(c, p, Fraction(0)) for c in eqs + conds]
            except ZeroDivisionError:
                continue
            half = Fraction(1, 2 * 10 ** digits)
            try:
                if any(propagated(x, p, half) is None for x in list(eqs + conds) + list(outs)):
                    continue      # a divisor within rounding distance of zero: the pole may have moved (see above)
            except (KeyError, ZeroDivisionError, ValueError):
                pass
            tol = max([allowance(o, p, digits) for o in outs] + [Fraction(1, 10 ** 9)]) * 2
            # a coefficient that rounds to zero takes its whole term out of the output (0.0004 x^3 at 1 decimal): the
            # rounding may have happened in the input's own form, so the input's propagated bound counts as well
            try:
                tol = max([tol] + [pr[1] * 2 for pr in (propagated(c, p, half) for c in eqs + conds) if pr is not None])
            except (KeyError, ZeroDivisionError, ValueError):
                pass
            try:
                near = any(abs(delta(c, p)) <= tol and not _is_eq(c) for c in conds) or any(abs(delta(o, p)) <= tol for o in outs if not _is_eq(o))
                vout = [_truth(o, p, tol if _is_eq(o) else Fraction(0)) for o in outs]
            except (ZeroDivisionError, KeyError) as e:
                res.bad("C13/print/output-undefined-or-unknown-fluent", {**info, "output": out, "error": repr(e)})
                return res
            if near:
                continue
            # an output equality that is nearly (but maybe not exactly) satisfied cannot be judged
            # through rounded coefficients unless the input conjunction holds exactly
            # ... or the input's own equalities hold exactly at this point (the constructed points do): then a false
            # input is false because of an inequality, by a clear margin, and the output must be false as well
            eq_in_exact = all(delta(c, p) == 0 for c in eqs + conds if _is_eq(c))
            if not all(vin) and not eq_in_exact and any(_is_eq(o) and abs(delta(o, p)) <= tol * 8 for o in outs):
                continue
            a, b = all(vin), all(vout)
            both.add(a)
            if a and b and eqs and tol < Fraction(1, 8):
                # the same point with the eliminated fluent moved by 1: every input equality over it (coefficient 1)
                # is now off by 1, far beyond any rounding, so the output must reject the point as well
                av = term_str(eqs[0][1][1])
                p2 = {**p, av: p[av] + 1}
                try:
                    vin2 = all(_truth(c, p2, Fraction(0)) for c in eqs + conds)
                    vout2 = all(_truth(o, p2, tol if _is_eq(o) else Fraction(0)) for o in outs)
                except (ZeroDivisionError, KeyError):
                    vin2 = vout2 = None
                if vin2 is False and vout2 is True:
                    res.bad("C13/print/conjunction-not-equivalent", {**info, "output": out, "point": {x: str(y) for x, y in p2.items()},
                                                                   "input_holds": False, "output_holds": True, "note": "eliminated fluent moved by 1"})
                    return res
            if a != b:
                res.bad("C13/print/conjunction-not-equivalent", {**info, "output": out, "point": {x: str(y) for x, y in p.items()},
                                                               "input_holds": a, "output_holds": b})
                return res
        return res
    from pv.ref.pddl import Invalid
    raise Invalid("entry")


def _walk(e):
    if isinstance(e, list):
        yield e
        for x in e:
            yield from _walk(x)


def _lower(x):
    return x


def _is_eq(c):
    return c[0] == "="


def pddl_number(x):
    return isinstance(x, str) and poly.is_number(x)


def _truth(c, p, tol):
    dlt = delta(c, p)
    op = c[0]
    if op == "=":
        return abs(dlt) <= tol
    return {"<": dlt < 0, "<=": dlt <= 0, ">": dlt > 0, ">=": dlt >= 0}[op]


# ---- generation ----------------------------------------------------------------------------------------

def gen_fluents(ch):
    names = ch.sample(NAMES, ch.int(1, 4))
    return [[n, list(ch.choice(ARGSETS))] for n in names]


def gen_long(ch):
    """A constant with a drawn magnitude and a drawn number of decimals (up to 8 significant digits and beyond)."""
    ip = ch.choice(["0", str(ch.int(1, 9)), str(ch.int(10, 99)), str(ch.int(100, 9999)), str(ch.int(10000, 9999999))])
    nd = ch.int(0, 7)
    frac = "".join(ch.choice("0123456789") for _ in range(nd))
    txt = ip + ("." + frac if nd else "")
    if Fraction(txt) == 0:
        txt = "0.5"
    return ("-" if ch.flag(0.25) else "") + txt


def gen_coef(ch, cls):
    if cls == "long":
        return gen_long(ch) if ch.flag(0.7) else ch.choice(COEFS_INT + COEFS_DEC)
    pool = {"int": COEFS_INT, "dec": COEFS_INT + COEFS_DEC, "near": COEFS_NEAR + COEFS_INT, "tiny": COEFS_TINY + COEFS_DEC}[cls]
    return ch.choice(pool)


def gen_monomial(ch, terms, maxdeg, cls):
    deg = ch.int(1, maxdeg)
    m = None
    for _ in range(deg):
        t = list(ch.choice(terms))
        m = t if m is None else ["*", m, t]
    c = gen_coef(ch, cls)
    if c == "1" and ch.flag(0.5):
        return m
    return ["*", c, m] if ch.flag(0.6) else ["*", m, c]


def gen_poly(ch, terms, maxdeg, cls, nmon=None):
    n = nmon or ch.int(1, 3)
    e = gen_monomial(ch, terms, maxdeg, cls)
    for _ in range(n - 1):
        e = [ch.choice(["+", "-", "+"]), e, gen_monomial(ch, terms, maxdeg, cls)]
    if ch.flag(0.4):
        e = [ch.choice(["+", "-"]), e, gen_coef(ch, cls)]
    return e


def gen(ch, tier):
    fl = gen_fluents(ch)
    terms = [[n] + a for n, a in fl]
    cls = ch.weighted([(4, "dec"), (3, "int"), (2, "near"), (1, "tiny"), (3, "long")])
    entry = ch.weighted([(3, "ineq"), (2, "eq"), (2, "expr"), (2, "tree"), (3, "print")])
    digits = ch.choice([None, 0, 1, 2, 3, 4, 5, 6, 4, 4])
    shape = ch.weighted([(10, "poly"), (2, "quotient"), (2, "factored"), (1, "square")])
    maxdeg = ch.weighted([(3, 1), (3, 2), (2, 3)])

    fine_digits = []

    def side():
        if shape == "quotient":
            if ch.flag(0.4):
                # the divisor is a fluent plus a constant that needs the requested decimals (k +- 1e-5, or one with
                # 5-6 decimals, then also printed with 5 or 6)
                if ch.flag(0.5):
                    c = str(ch.int(0, 9)) + "." + "".join(ch.choice("0123456789") for _ in range(ch.int(4, 5))) + ch.choice("123456789")
                    fine_digits.append(ch.choice([5, 6, 6]))
                else:
                    c = gen_coef(ch, ch.choice(["near", "long", "dec"]))
                den = ["+", list(ch.choice(terms)), c]
                return ["/", gen_poly(ch, terms, 1, cls, ch.int(1, 2)), den]
            return ["/", gen_poly(ch, terms, min(maxdeg, 2), cls, 2), gen_monomial(ch, terms, 1, "int")]
        if shape == "square":
            # a product of proportional sums: sympy turns it into a power with a compound base, c * (x + y)**2
            pz = gen_poly(ch, terms, 1, "int", 2)
            return ["*", pz, ["*", copy.deepcopy(pz), ch.choice(["2", "3", "0.5", "-1"])]] if ch.flag(0.6) else ["*", pz, copy.deepcopy(pz)]
        if shape == "factored" and len(terms) >= 1:
            return ["*", gen_poly(ch, terms, 1, cls, 2), gen_poly(ch, terms, 1, cls, 2)]
        return gen_poly(ch, terms, maxdeg, cls)
    case = {"entry": entry, "fluents": fl, "digits": digits}
    if ch.flag(0.2):
        case["history"] = True
    sd = ch.side("integer-quotient")
    if entry != "print" and sd.flag(0.1):
        # integers only, divided by an integer that does not divide them: the coefficients are exact fractions with an
        # integer part (7/3, 400/3), printed at the requested decimals
        q = sd.choice(["3", "7", "6", "9", "11", "13"])
        num = gen_poly(sd, terms, 1, "int", sd.int(1, 2))
        e = sd.choice([["/", num, q], ["/", ["*", sd.choice(["7", "22", "10", "100", "-25"]), list(sd.choice(terms))], q]])
        if sd.flag(0.5):
            case["digits"] = sd.choice([1, 2, 2, 3])
        if entry == "expr":
            case["expr"] = e
        elif entry == "eq":
            case["conds"] = [["=", ["*", q, list(sd.choice(terms))], sd.choice(["400", "100", "-50", "7", "1000"])]] if sd.flag(0.5) \
                else [["=", e, sd.choice(["4", "10", "-2"])]]
        else:
            case["conds"] = [[sd.choice(["<", "<=", ">", ">="]), e, sd.choice(["4", "10", "-2", "25"])]]
        return case
    rhs = (lambda: gen_coef(ch, cls) if ch.flag(0.5) else gen_poly(ch, terms, 1, cls, 1))
    if entry == "expr":
        case["expr"] = side()
        if fine_digits:
            case["digits"] = fine_digits[0]
        return case
    op = "=" if entry == "eq" else ch.choice(["<", "<=", ">", ">="])
    case["conds"] = [[op, side(), rhs()]]
    if fine_digits:
        case["digits"] = digits = fine_digits[0]
    if entry in ("ineq", "print") and len(terms) >= 2 and ch.flag(0.6):
        eqs = []
        used = set()
        for _ in range(ch.int(1, 2)):
            cands = [t for t in terms if term_str(t) not in used]
            if len(cands) < 1 or len(terms) - len(used) < 2:
                break
            a = ch.choice(cands)
            used.add(term_str(a))
            others = [t for t in terms if term_str(t) not in used]
            if not others:
                break
            rest = gen_poly(ch, others, 1, "dec" if cls in ("near", "tiny", "long") else cls, ch.int(1, 2))
            eqs.append(["=", ["+", list(a), rest], ch.choice(["0", "0", gen_coef(ch, "int")])])
        if len(eqs) == 1 and entry == "print" and ch.flag(0.3):
            # a second equality that eliminates the same fluent: (= (+ a rest1) c1), (= (+ a (* t2 k)) c2)
            a0 = eqs[0][1][1]
            free = [t for t in terms if term_str(t) != term_str(a0) and term_str(t) not in terms_in(eqs[0][1][2])]
            if free:
                t2 = list(ch.choice(free))
                eqs.append(["=", ["+", list(a0), ["*", t2, ch.choice(["2", "-1", "3", "0.5"])]], gen_coef(ch, "int")])
                case["shared_elimination"] = True
        case["equalities"] = eqs
        if eqs and not case.get("shared_elimination") and ch.flag(0.3):
            # an inequality whose left side cancels completely under the first equality: what remains, 0 <op> rhs,
            # still restricts the fluents of the right side
            rest_terms = [t for t in terms if term_str(t) != term_str(eqs[0][1][1])]
            case["conds"] = [[op, ["-", copy.deepcopy(eqs[0][1]), eqs[0][2]],
                              gen_poly(ch, rest_terms, 1, "int", 1) if rest_terms and ch.flag(0.7) else gen_coef(ch, "int")]]
    if entry == "print" and len(terms) >= 2 and "equalities" not in case and ch.flag(0.35):
        # an equality over a difference, (= (- a rest) c), next to an inequality over a: it is not of the shape the
        # library eliminates with, so the inequality must come out as it went in
        a, b = [list(tm) for tm in ch.sample(terms, 2)]
        rest = b if ch.flag(0.8) else ["*", b, ch.choice(["2", "3", "0.5"])]
        others = [list(tm) for tm in terms if list(tm) not in (a, b)]
        lhs = ch.choice([["+", a, copy.deepcopy(rest)], ["+", copy.deepcopy(rest), a], ["+", a, copy.deepcopy(rest)],
                         ["+", ["*", a, "2"], copy.deepcopy(rest)], gen_poly(ch, [a, b], 2, "int", 2)])
        rhs2 = ch.choice(others) if others and ch.flag(0.5) else gen_coef(ch, "int")
        case["conds"] = [["=", ["-", a, rest], gen_coef(ch, "int")], [ch.choice(["<", "<=", ">", ">="]), lhs, rhs2]]
        return case
    if entry == "print" and len(terms) >= 2 and "equalities" not in case and ch.flag(0.25):
        # two conditions of one shape whose constants agree at the printed resolution and differ below it, scaled
        # back up by a common factor: (4x + y <= r) and (x + 4y <= r) written with 0.004 * 1000 at 2 decimals
        d_eff = digits if digits is not None else 2
        tiny = lambda a: "0." + "0" * d_eff + str(a)
        big = "1" + "0" * (d_eff + 1)
        x, y = [list(tm) for tm in ch.sample(terms, 2)]
        a1, a2 = ch.choice([(4, 1), (3, 1), (1, 2), (2, 4)])
        r = ch.choice(["10", "5", "-3", "7.5"])

        def cond(p, q):
            return [op if op != "=" else "<=", ["+", ["*", ["*", x, tiny(p)], big], ["*", ["*", y, tiny(q)], big]], r]
        case["conds"] = [cond(a1, a2), cond(a2, a1)]
        return case
    if entry == "print":
        for _ in range(ch.int(0, 2)):
            op2 = ch.choice(["<", "<=", ">", ">=", "="])
            lhs2 = gen_poly(ch, terms, maxdeg, cls)
            if op2 == "=" and lhs2[0] == "+":
                lhs2 = ["-", lhs2[1], lhs2[2]]
            case["conds"].append([op2, lhs2, rhs()])
        c0 = case["conds"][0]
        if c0[0] == "=" and isinstance(c0[1], list) and c0[1][0] == "+":
            c0[1] = ["-", c0[1][1], c0[1][2]]
    return case


def corpus():
    # a contradictory equality offered for elimination: nothing to eliminate, must not crash, stays unsatisfiable
    yield "contradictory-assumption", {"entry": "print", "fluents": [["load-limit", []], ["w", ["?x"]]], "digits": 3, "degenerate": True,
                                       "conds": [[">=", ["load-limit"], ["w", "?x"]]],
                                       "equalities": [["=", ["+", ["w", "?x"], "1"], ["w", "?x"]]]}
    yield "contradictory-assumption-ineq", {"entry": "ineq", "fluents": [["load-limit", []], ["w", ["?x"]]], "digits": 4, "degenerate": True,
                                            "conds": [[">=", ["load-limit"], ["w", "?x"]]],
                                            "equalities": [["=", ["+", ["w", "?x"], "1"], ["w", "?x"]]]}
    yield "contradictory-equality", {"entry": "eq", "fluents": [["dist", ["?p1"]]], "digits": 6,
                                     "conds": [["=", ["dist", "?p1"], ["-", ["dist", "?p1"], "-1"]]]}
    yield "near-integer", {"entry": "ineq", "fluents": [["fuel", ["?p1"]]], "digits": 4, "conds": [["<", ["fuel", "?p1"], "2.99999"]]}
    yield "tiny-factor", {"entry": "expr", "fluents": [["lvl_a2", ["a-b", "c_d"]], ["w", []]], "digits": 4,
                          "expr": ["+", ["*", "0.00001", ["lvl_a2", "a-b", "c_d"]], ["w"]]}
    yield "half", {"entry": "tree", "fluents": [["cost_total", []]], "digits": 2, "conds": [[">=", ["/", ["cost_total"], "2"], "10"]]}


def plan(tier):
    if tier == "quick":
        return {"streams": {"main": 1600}, "shards": 8}
    return {"streams": {"main": 40000}, "shards": 8}
