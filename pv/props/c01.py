"""C01 - domain text is parsed faithfully or rejected, never silently altered.

Oracle: the generated AST that produced the text.  (1) vocabulary read from the public attributes
of the returned Domain; (2) every action read back through public attributes into an S-expression
and compared with the source - structurally (canonical form) and, when the structures differ,
behaviourally under the reference interpreter on calls x states; (3) outcome rule: in-fragment
text must be faithful (an exception is a discrepancy); an outside form must be faithful or raise at
parse or, at the latest, on first grounding / evaluation of the affected action."""
import hashlib
import json
from fractions import Fraction

from pv import ctx
from pv.chooser import RChooser
from pv.gen import domains as G
from pv.harness import build_objects, build_state, lib_objects, parse_domain, unjstate, jstate
from pv.lib import lib_call
from pv.props import sem_common as S
from pv.ref import extract, pddl, sexpr
from pv.runner import Res

ID = "C01"
RULE = ("fragment-F domain ASTs (typed/untyped, grouped parameters, type trees, constants, negative literals, "
        "(in)equality, nested and/or, forall, numeric comparisons and assignments, when, forall-when) rendered with "
        "generated layout / letter case / comments, and the same with one outside form injected (single-literal or "
        "top-level-not body, imply, exists, either, n-ary / unary arithmetic, scale-up/down, undeclared predicate / "
        "function / type, repeated argument, wrong arity, not-and, two-variable quantifier, nested when, forall "
        "effect without when, number-first comparison, top-level or).  Non-trivial = the domain contains a negative "
        "literal, nested group, forall, when, numeric term, constant argument or grouped parameters, or is an "
        "outside form.  Distinct by canonical AST + outside-form tag.")
ASSUMPTIONS = ["structural equality of canonical forms implies faithfulness; structurally different read-backs are "
               "compared behaviourally on the case's probes plus 24 derived (call, state) pairs",
               "for outside forms that have no PDDL meaning (undeclared names, wrong arity) only a structurally "
               "identical read-back counts as faithful"]

MEANINGLESS = {"wrong-arity-atom-less", "wrong-arity-atom-extra", "wrong-arity-fterm-less", "wrong-arity-fterm-extra",
               "undeclared-pred-pre", "undeclared-pred-neg-pre", "undeclared-pred-eff", "undeclared-pred-del",
               "undeclared-function", "undeclared-term"}
F_K2_LIFTED = "K2-lifted-repeat"      # lifted atom / function term with a repeated argument loses arity
F_K7 = "K7-nary-truncated"            # (+ a b c) keeps two operands; extra function arguments dropped by zip
F_K5 = "K5-simplifier-at-parse"       # nested numeric conditions are pushed through the simplifier when hashed


# ---- canonical forms ---------------------------------------------------------------------------

def nexpr(e):
    if isinstance(e, str):
        try:
            return str(Fraction(e)) if pddl.is_number(e) else e
        except Exception:
            return e
    return [nexpr(x) for x in e]


def usort(items):
    out = []
    for x in sorted(items, key=lambda y: json.dumps(y)):
        if not out or out[-1] != x:
            out.append(x)
    return out


def canon_cond(c):
    if not isinstance(c, list) or not c:
        return c
    h = c[0]
    if h in ("and", "or"):
        return [h] + usort(canon_cond(x) for x in c[1:])
    if h == "not" and len(c) == 2:
        return ["not", canon_cond(c[1])]
    if h in ("forall", "exists") and len(c) == 3:
        return [h, c[1], canon_cond(c[2])]
    if h == "imply":
        return [h] + [canon_cond(x) for x in c[1:]]
    if h in pddl.CMP_OPS and not (h == "=" and len(c) == 3 and isinstance(c[1], str) and not pddl.is_number(c[1])):
        ops = [nexpr(x) for x in c[1:]]
        if h == "=":     # numeric equality is symmetric
            ops = sorted(ops, key=lambda y: json.dumps(y))
        return [h] + ops
    if h == "=" and len(c) == 3:
        return ["="] + sorted(c[1:], key=str)
    return c


def as_and(c):
    return c if (isinstance(c, list) and c and c[0] == "and") else ["and", c]


def msort(items):
    """Sorted, duplicates kept for numeric effects (two equal increases add up), dropped for literals."""
    out = []
    for x in sorted(items, key=lambda y: json.dumps(y)):
        numeric = isinstance(x, list) and x and x[0] in pddl.ASSIGN_OPS + ("scale-up", "scale-down")
        if numeric or not out or out[-1] != x:
            out.append(x)
    return out


def canon_eff(e):
    """Effect -> sorted list of groups."""
    items = e[1:] if (e and e[0] == "and") else [e]
    simple, groups = [], []
    for x in items:
        if not isinstance(x, list) or not x:
            simple.append(x)
        elif x[0] == "when" and len(x) == 3:
            groups.append(["when", canon_cond(as_and(x[1])), msort(canon_simple(y) for y in as_and(x[2])[1:])])
        elif x[0] == "forall" and len(x) == 3 and isinstance(x[2], list) and x[2] and x[2][0] == "when" and len(x[2]) == 3:
            w = x[2]
            groups.append(["forall", x[1], canon_cond(as_and(w[1])), msort(canon_simple(y) for y in as_and(w[2])[1:])])
        else:
            simple.append(canon_simple(x))
    return [msort(simple), usort(groups)]


def canon_simple(x):
    if isinstance(x, list) and x and x[0] in pddl.ASSIGN_OPS + ("scale-up", "scale-down"):
        return [x[0]] + [nexpr(y) for y in x[1:]]
    return x


# ---- behavioural comparison ----------------------------------------------------------------------

def derived_probes(case, dom, objects, n=24):
    seed = int.from_bytes(hashlib.blake2b(json.dumps(case["dom"], sort_keys=True).encode(), digest_size=6).digest(), "big")
    ch = RChooser(seed)
    world = pddl.World(dom, objects)
    out = []
    for _ in range(n):
        a = ch.choice(dom["actions"])
        args = G.gen_call(ch, world, a)
        if args is None:
            continue
        out.append({"action": a["name"], "args": args, "state": jstate(G.gen_state(ch, world))})
    return out


def boundary_probes(world, params, formulas, probes, action_name, limit=60):
    """States placed on and just beside the boundary of every numeric comparison occurring in the formulas (source
    and read-back): a changed coefficient flips the truth value there although both agree on generic states."""
    leaves = []
    for f in formulas:
        for x in pddl.walk(f):
            if x and isinstance(x[0], str) and x[0] in pddl.CMP_OPS and len(x) == 3 and not pddl.is_term(x[1]) and x not in leaves:
                leaves.append(x)
    out = []
    for pr in [p for p in probes if p["action"] == action_name][:2]:
        st = unjstate(pr["state"])
        env = {p: o for (p, _), o in zip(params, pr["args"])}
        for leaf in leaves[:10]:
            env2 = dict(env)
            for x in pddl.walk(leaf):
                for tkn in x[1:]:
                    if isinstance(tkn, str) and tkn.startswith("?") and tkn not in env2 and world.objects:
                        env2[tkn] = sorted(world.objects)[0]          # a quantified variable: any object will do
            keys = []
            for x in pddl.walk(leaf):
                if x and isinstance(x[0], str) and x[0] in world.funcs and len(x) - 1 == len(world.funcs[x[0]]):
                    k = (x[0],) + tuple(env2.get(a, a) for a in x[1:])
                    if k in st[1] and k not in keys:
                        keys.append(k)
            for k in keys[:3]:
                def delta(v):
                    s2 = (st[0], {**st[1], k: v})
                    return pddl.ev(leaf[1], env2, s2) - pddl.ev(leaf[2], env2, s2)
                try:
                    v0 = st[1][k]
                    d0, d1 = delta(v0), delta(v0 + 1)
                except (pddl.Undefined, ZeroDivisionError, KeyError, TypeError, ValueError):
                    continue
                if d1 == d0:
                    continue
                root = v0 - d0 / (d1 - d0)
                if abs(root) > 10 ** 6 or root.denominator.bit_length() > 200:
                    continue
                for rel in (Fraction(0), Fraction(1, 100), Fraction(-1, 100), Fraction(1, 2), Fraction(-1, 2)):
                    v = root + rel * max(1, abs(root))
                    out.append({"action": action_name, "args": pr["args"], "state": jstate((st[0], {**st[1], k: v}))})
                    if len(out) >= limit:
                        return out
    return out


def behaviour_differs(world, params, src_pre, src_eff, x_pre, x_eff, probes, action_name):
    """-> None | 'pre' | 'eff' | 'undecidable'."""
    decided = 0
    try:
        probes = list(probes) + boundary_probes(world, params, [src_pre or [], x_pre or [], src_eff, x_eff], probes, action_name)
    except Exception:      # read-back structures outside the reference's forms: the plain probes decide
        probes = list(probes)
    for pr in probes:
        if pr["action"] != action_name:
            continue
        st = unjstate(pr["state"])
        env = {p: o for (p, _), o in zip(params, pr["args"])}
        try:
            a = pddl.holds(src_pre or [], env, st, world)
        except (pddl.Undefined, pddl.Ambiguous):
            continue
        except Exception:
            return "undecidable"
        try:
            b = pddl.holds(x_pre or [], env, st, world)
        except (pddl.Undefined, pddl.Ambiguous):
            return "pre"
        except Exception:
            return "pre"
        if a != b:
            return "pre"
        try:
            s1 = pddl.successor(src_eff, env, st, world)
        except (pddl.Undefined, pddl.Ambiguous, pddl.Conflict):
            continue
        except Exception:
            return "undecidable"
        try:
            s2 = pddl.successor(x_eff, env, st, world)
        except Exception:
            return "eff"
        if not pddl.states_equal(s1, s2):
            return "eff"
        decided += 1
    # no probe had a defined reference outcome for the source: equivalence cannot be concluded
    return None if decided else "undecided"


def compare_action(world, a, lib_action, probes, strict=False):
    """-> list of (part, detail) where the read-back is unfaithful.  When the structures differ and no
    probe has a defined reference outcome the result is ('UNDECIDED', None) - unless strict (outside
    forms), where an unverifiable read-back counts as unfaithful."""
    out = []
    ok, xa = lib_call(extract.x_action, lib_action)
    if not ok:
        return [("extract", repr(xa))]
    params, x_pre, x_eff = xa
    if [list(p) for p in a["params"]] != params:
        out.append(("signature", {"expected": a["params"], "got": params}))
    src_pre = a.get("pre") or ["and"]
    same_pre = canon_cond(as_and(src_pre)) == canon_cond(x_pre)
    same_eff = canon_eff(a["eff"]) == canon_eff(x_eff)
    if same_pre and same_eff:
        return out
    why = behaviour_differs(world, a["params"], src_pre, a["eff"], x_pre, x_eff, probes, a["name"])
    if why == "undecided" and not strict:
        return out + [("UNDECIDED", None)]
    if why in ("undecidable", "undecided"):
        if not same_pre:
            out.append(("pre", {"source": src_pre, "read_back": x_pre}))
        if not same_eff:
            out.append(("eff", {"source": a["eff"], "read_back": x_eff}))
    elif why == "pre":
        out.append(("pre", {"source": src_pre, "read_back": x_pre}))
    elif why == "eff":
        out.append(("eff", {"source": a["eff"], "read_back": x_eff}))
    return out


def expected_vocab(dom):
    typed = dom.get("typed", True)
    T = pddl.Types(dom["types"] if typed else [])
    types = {n: T.parent[n] for n in T.names()}
    ty = (lambda t: t) if typed else (lambda t: "object")
    return {
        "types": types,
        "constants": {n: ty(t) for n, t in dom["constants"]},
        "predicates": {n: [[p, ty(t)] for p, t in sig] for n, sig in dom["predicates"]},
        "functions": {n: [[p, t] for p, t in sig] for n, sig in dom["functions"]},
        "actions": {a["name"]: [[p, ty(t)] for p, t in a["params"]] for a in dom["actions"]},
    }


def type_closure(types):
    out = {}
    for n in types:
        chain, cur, seen = [], n, set()
        while cur is not None and cur not in seen:
            chain.append(cur)
            seen.add(cur)
            cur = types.get(cur)
        out[n] = chain
    return out


def vocab_diffs(dom, domain, ordered=True):
    """ordered: the declarations also come in the source's order (parsing keeps it; an exporter may regroup, e.g.
    constants by type, so round trips compare without order)."""
    ok, got = lib_call(extract.x_vocab, domain)
    if not ok:
        return [("extract", repr(got))]
    exp = expected_vocab(dom)
    out = []
    if type_closure(exp["types"]) != type_closure(got["types"]):
        out.append(("types", {"expected": exp["types"], "got": got["types"]}))
    elif got.get("type_chains") is not None and got["type_chains"] != type_closure(got["types"]):
        # entry by entry the table is right, but a type object's own parent chain says something else
        out.append(("types-parent-objects", {"table": type_closure(got["types"]), "following_parent_objects": got["type_chains"]}))
    for k in ("constants", "predicates", "functions", "actions"):
        if exp[k] != got[k] or (ordered and list(exp[k]) != list(got[k])):
            out.append((k, {"expected": exp[k], "got": got[k]}))
    if getattr(domain, "name", None) != dom["name"]:
        out.append(("name", {"expected": dom["name"], "got": getattr(domain, "name", None)}))
    return out


# ---- the check --------------------------------------------------------------------------------------

def first_use_outcomes(domain, dom, objects, world, a, probes, part):
    """For an unfaithfully parsed action: does first use raise?  Returns list of silent outcomes."""
    from pddl_plus_parser.models import Operator
    silent = []
    objs = lib_objects(domain, build_objects(domain, objects))
    for pr in probes:
        if pr["action"] != a["name"]:
            continue
        st = unjstate(pr["state"])
        ok_s, state = lib_call(build_state, domain, world, st)
        if not ok_s:
            continue

        def run_ground():
            op = Operator(domain.actions[a["name"]], domain, list(pr["args"]), objs)
            op.ground()
            return op
        okg, op = lib_call(run_ground)
        if not okg:
            continue
        if part in ("pre", "signature", "extract"):
            ok1, v = lib_call(op.is_applicable, state)
            if ok1:
                silent.append({"use": "is_applicable", "returned": v, "args": pr["args"]})
                break
        if part in ("eff", "signature", "extract"):
            ok2, v = lib_call(lambda: op.apply(state, allow_inapplicable_actions=True).serialize())
            if ok2:
                silent.append({"use": "apply", "returned": v[:300], "args": pr["args"]})
                break
    return silent


def explain_known(tag, part, a):
    """Known findings that excuse a silent alteration of an outside form."""
    if tag in ("repeated-arg-atom", "repeated-arg-fterm") and ctx.active(F_K2_LIFTED):
        return F_K2_LIFTED
    if tag in ("nary-arith", "nary-arith-literals", "wrong-arity-fterm-extra") and ctx.active(F_K7):
        return F_K7
    return None


def check_case(case):
    res = Res()
    dom, objects = case["dom"], case["objects"]
    tag = case.get("outside")
    pddl.validate_domain(dom, objects)
    pddl.validate_probes(dom, objects, case["probes"])
    if tag:
        dom = apply_ops(dom, case["inject"])
        if tag in MEANINGLESS:
            try:    # a (reduced) base domain can make a "wrong arity" form well-formed: then it is in-fragment
                pddl.validate_domain(dom, objects)
                tag = None
            except Exception:
                pass
    ok, domain = parse_domain(dom, S.layout_of(case))
    feats = set()
    for a in dom["actions"]:
        try:
            feats |= S.features_of(a)
        except Exception:
            pass
        if a.get("group_params"):
            feats.add("grouped-params")
    if dom["constants"]:
        feats.add("constants")
    res.classes = [f"outside:{tag}"] if tag else (sorted(feats) or ["plain"])
    res.nontrivial = bool(tag) or bool(feats)
    res.key = json.dumps([dom, tag], sort_keys=True)
    if not ok:
        if tag:
            res.classes.append("outside-raised-at-parse")
            return res
        if ctx.active(F_K5) and domain.where.startswith(("numeric_symbolic_operations", "pddl_precondition")) or \
                (ctx.active(F_K5) and "sympy" in domain.where):
            res.known.append(F_K5)
            return res
        res.bad(f"C01/parse/exception:{domain.key}", {"text": sexpr.flat(pddl.domain_tree(dom)), "error": repr(domain)})
        return res
    world = None
    try:
        world = pddl.World(dom, objects)
    except Exception:
        pass
    vd = vocab_diffs(dom, domain)
    probes = list(case["probes"])
    if world is not None and not tag:
        probes += derived_probes(case, dom, objects)
    elif world is not None:
        try:
            probes += derived_probes(case, dom, objects)
        except Exception:
            pass
    unfaithful = []   # (action, part, detail)
    for what, detail in vd:
        unfaithful.append((None, f"vocab-{what}", detail))
    for a in dom["actions"]:
        la = domain.actions.get(a["name"]) if hasattr(domain, "actions") else None
        if la is None:
            unfaithful.append((a, "signature", {"missing action": a["name"]}))
            continue
        for part, detail in compare_action(world, a, la, probes, strict=bool(tag)):
            if part == "UNDECIDED":
                res.skips.append("equivalence-undecided")
            else:
                unfaithful.append((a, part, detail))
    if not unfaithful and tag in MEANINGLESS and world is not None:
        # ill-formed PDDL (wrong arity, undeclared names) has no meaning to be faithful to: keeping the text as
        # written is fine at parse time, but grounding / evaluating the action must raise
        a0 = dom["actions"][0]
        okf, silent = lib_call(first_use_outcomes, domain, dom, objects, world, a0, probes, "signature")
        if okf and silent:
            res.bad(f"C01/outside/{tag}/evaluated-silently", {"action": a0, "silent": silent[:2], "text": sexpr.flat(pddl.domain_tree(dom))})
        else:
            res.classes.append("outside-raised-at-first-use")
        return res
    if not unfaithful:
        if tag:
            res.classes.append("outside-faithful")
        return res
    if not tag:
        for a, part, detail in unfaithful:
            res.bad(f"C01/{'vocabulary' if a is None else 'meaning'}/{part}", {"action": a, "detail": detail,
                                                                            "text": sexpr.flat(pddl.domain_tree(dom))})
        return res
    # outside form, unfaithful read-back: must raise on first use of the affected action
    for a, part, detail in unfaithful:
        if a is None:
            # vocabulary altered silently (e.g. either types): every action is affected
            affected = dom["actions"]
        else:
            affected = [a]
        silent = []
        for aa in affected:
            if world is None:
                silent.append({"use": "parse", "note": "returned a domain"})
                break
            okf, s = lib_call(first_use_outcomes, domain, dom, objects, world, aa, probes, part if a is not None else "signature")
            if okf and s:
                silent += s
        if silent:
            k = explain_known(tag, part, a)
            if k:
                res.known.append(k)
            else:
                res.bad(f"C01/outside/{tag}/silent-{part}", {"action": a, "detail": detail, "silent": silent[:2],
                                                             "text": sexpr.flat(pddl.domain_tree(dom))})
        else:
            res.classes.append("outside-raised-at-first-use")
    return res


# ---- generation ----------------------------------------------------------------------------------------

OUTSIDE = ["single-literal-pre", "top-not-pre", "single-numeric-pre", "imply", "exists", "either", "nary-arith", "nary-arith-literals",
           "unary-minus", "scale-up", "undeclared-pred-pre", "undeclared-pred-neg-pre", "undeclared-pred-eff",
           "undeclared-pred-del", "repeated-arg-atom", "repeated-arg-fterm", "wrong-arity-atom-less",
           "wrong-arity-atom-extra", "wrong-arity-fterm-less", "wrong-arity-fterm-extra", "not-and",
           "forall-two-vars", "nested-when", "forall-eff-no-when", "forall-eff-single", "number-first-eq",
           "const-comparison", "undeclared-function", "undeclared-type", "undeclared-term", "top-or",
           "top-or-single", "when-cond-imply", "empty-effect", "effect-single-literal", "not-comparison"]


def inject(ch, dom, tag):
    """Returns the list of edit operations that put the outside form into action 0 (None when not
    injectable).  The base domain stays valid; check_case applies the operations to a copy."""
    a = dom["actions"][0]
    g = G.FGen(ch, dom, G.feats(nested=False, forall_pre=False))
    scope = [(p, t) for p, t in a["params"]]
    ops = []
    atom = g.atom(scope)
    ft = g.fterm(scope)
    tn = [t for t, _ in dom["types"]] or ["object"]
    if tag == "single-literal-pre":
        if not atom: return None
        ops.append(["pre-set", atom])
    elif tag == "top-not-pre":
        if not atom: return None
        ops.append(["pre-set", ["not", atom]])
    elif tag == "single-numeric-pre":
        if not ft: return None
        ops.append(["pre-set", [">=", ft, "1"]])
    elif tag == "imply":
        b = g.atom(scope)
        if not atom or not b: return None
        ops.append(["pre-add", ["imply", atom, b]])
    elif tag == "exists":
        if not dom["typed"]: return None
        qt = ch.choice(tn)
        b = g.atom(scope + [("?z", qt)])
        if not b: return None
        ops.append(["pre-add", ["exists", ["?z", "-", qt], ["and", b]]])
    elif tag == "either":
        if not dom["typed"] or len(tn) < 2 or not a["params"]: return None
        ops.append(["param-type", 0, ["either", tn[0], tn[1]]])
    elif tag == "nary-arith":
        if not ft: return None
        ops.append(["pre-add", [">=", ["+", ft, "1", "2"], "0"]])
    elif tag == "nary-arith-literals":
        if not ft: return None
        op = ch.choice(["+", "*", "-", "/"])
        nums = [ch.choice(["2", "3", "5", "10"]) for _ in range(ch.int(3, 4))]
        if ch.flag(0.5):
            ops.append(["pre-add", [">=", ft, [op] + nums]])
        else:
            ops.append(["eff-add", [ch.choice(["increase", "assign"]), ft, [op] + nums]])
    elif tag == "unary-minus":
        if not ft: return None
        ops.append(["pre-add", ["<=", ["-", ft], "0"]])
    elif tag == "scale-up":
        if not ft: return None
        ops.append(["eff-add", [ch.choice(["scale-up", "scale-down"]), ft, "2"]])
    elif tag == "undeclared-pred-pre":
        ops.append(["pre-add", ["undeclared"] + [p for p, _ in a["params"][:1]]])
    elif tag == "undeclared-pred-neg-pre":
        ops.append(["pre-add", ["not", ["undeclared"] + [p for p, _ in a["params"][:1]]]])
    elif tag == "undeclared-pred-eff":
        ops.append(["eff-add", ["undeclared"] + [p for p, _ in a["params"][:1]]])
    elif tag == "undeclared-pred-del":
        ops.append(["eff-add", ["not", ["undeclared"] + [p for p, _ in a["params"][:1]]]])
    elif tag in ("repeated-arg-atom", "repeated-arg-fterm"):
        g2 = G.FGen(ch, dom, G.feats(lifted_repeat=True))
        table = dom["predicates"] if tag.endswith("atom") else dom["functions"]
        cands = []
        for n, sig in table:
            if len(sig) >= 2:
                for v, t in scope:
                    if all(g2.types.is_sub(t, st) for _, st in sig[:2]):
                        cands.append([n, v, v] + [None] * (len(sig) - 2))
        if not cands: return None
        x = ch.choice(cands)
        if None in x:
            rest = g2.args_for([s for s in dict(table)[x[0]][2:]], scope)
            if rest is None: return None
            x = x[:3] + rest
        if tag.endswith("atom"):
            if ch.flag(0.5):
                ops.append(["pre-add", x])
            else:
                ops.append(["eff-add", x])
        else:
            ops.append(["pre-add", [">=", x, "0"]])
    elif tag in ("wrong-arity-atom-less", "wrong-arity-atom-extra"):
        if not atom: return None
        if tag.endswith("less"):
            if len(atom) < 2: return None
            x = atom[:-1]
        else:
            # prefer a term the atom does not use yet (a repeated one is rejected for another reason)
            cands = [v for v, _ in scope if v not in atom] + [c for c, _ in dom["constants"] if c not in atom]
            extra = ch.choice(cands) if cands else (scope[0][0] if scope else None)
            if extra is None: return None
            x = atom + [extra]
        if ch.flag(0.5):
            ops.append(["pre-add", x])
        else:
            ops.append(["eff-add", x if ch.flag(0.5) else ["not", x]])
    elif tag in ("wrong-arity-fterm-less", "wrong-arity-fterm-extra"):
        if not ft: return None
        if tag.endswith("less"):
            if len(ft) < 2: return None
            x = ft[:-1]
        else:
            extra = scope[0][0] if scope else (dom["constants"][0][0] if dom["constants"] else None)
            if extra is None: return None
            x = ft + [extra]
        if ch.flag(0.5):
            ops.append(["pre-add", [">=", x, "0"]])
        else:
            ops.append(["eff-add", ["increase", x, "1"]])
    elif tag == "not-and":
        b = g.atom(scope)
        if not atom or not b: return None
        ops.append(["pre-add", ["not", ["and", atom, b]]])
    elif tag == "forall-two-vars":
        if not dom["typed"]: return None
        qt = ch.choice(tn)
        b = g.atom(scope + [("?z", qt), ("?w", qt)])
        if not b: return None
        ops.append(["pre-add", ["forall", ["?z", "?w", "-", qt], ["and", b]]])
    elif tag == "nested-when":
        b = g.atom(scope)
        e1 = g.simple_eff(scope)
        if not atom or not b or not e1: return None
        ops.append(["eff-add", ["when", atom, ["and", ["when", b, e1]]]])
    elif tag in ("forall-eff-no-when", "forall-eff-single"):
        if not dom["typed"]: return None
        qt = ch.choice(tn)
        sc2 = scope + [("?z", qt)]
        e1, e2 = g.simple_eff(sc2), g.simple_eff(sc2)
        if not e1 or not e2: return None
        ops.append(["eff-add", ["forall", ["?z", "-", qt], ["and", e1, e2] if tag == "forall-eff-no-when" else e1]])
    elif tag == "not-comparison":
        # a negated numeric comparison (legal with :negative-preconditions): its complement differs from the
        # mirrored comparison exactly where both sides are equal, so the constant is one the states hold
        if not ft: return None
        c = [ch.choice([">", "<", ">=", "<="]), ft, ch.choice(["1", "2", "0", "5", "-1"])]
        ops.append(["pre-add", ["not", c]] if ch.flag(0.6) else ["eff-add", ["when", ["not", c], atom or ["not", c]]])
    elif tag == "number-first-eq":
        if not ft: return None
        ops.append(["pre-add", ["=", "0.5", ft]])
    elif tag == "const-comparison":
        ops.append(["pre-add", ["<", "1", "1.5"]])
    elif tag == "undeclared-function":
        ops.append(["pre-add", [">=", ["undeclaredf"], "0"]])
    elif tag == "undeclared-type":
        if not dom["typed"] or not a["params"]: return None
        ops.append(["param-type", 0, "nosuchtype"])
    elif tag == "undeclared-term":
        cands = [n for n, sig in dom["predicates"] if len(sig) >= 1]
        if not cands or not atom or len(atom) < 2: return None
        x = list(atom)
        x[1] = "?nosuchvar" if ch.flag(0.5) else "nosuchconst"
        if ch.flag(0.5):
            ops.append(["pre-add", x])
        else:
            ops.append(["eff-add", x])
    elif tag in ("top-or", "top-or-single"):
        b = g.atom(scope)
        if not atom or not b: return None
        ops.append(["pre-set", ["or", atom, b] if tag == "top-or" else ["or", atom]])
    elif tag == "when-cond-imply":
        b = g.atom(scope)
        e1 = g.simple_eff(scope)
        if not atom or not b or not e1: return None
        ops.append(["eff-add", ["when", ["imply", atom, b], e1]])
    elif tag == "empty-effect":
        ops.append(["eff-set", []])
    elif tag == "effect-single-literal":
        if not atom: return None
        ops.append(["eff-set", atom if ch.flag(0.5) else ["not", atom]])
    else:
        raise KeyError(tag)
    return ops



KEYWORDS = {"and", "or", "not", "imply", "exists", "forall", "when", "either", "scale-up", "scale-down", "=",
            "<", "<=", ">", ">=", "+", "-", "*", "/", "assign", "increase", "decrease"}


def ops_sig(ops):
    return hashlib.sha1(json.dumps(ops, sort_keys=True).encode()).hexdigest()[:12]


def apply_ops(dom, inj):
    """Base domain + injection -> the domain that is rendered.  Raises Invalid when the injection was
    tampered with or no longer fits the (possibly reduced) base domain."""
    ops = inj["ops"]
    if ops_sig(ops) != inj["sig"]:
        raise pddl.Invalid("injection changed")
    dom = json.loads(json.dumps(dom))
    a = dom["actions"][0]
    params = {p for p, _ in a["params"]}
    names = {n for n, _ in dom["predicates"]} | {n for n, _ in dom["functions"]} | {"undeclared", "undeclaredf"}
    consts = {n for n, _ in dom["constants"]} | {"nosuchconst"}
    tnames = {t for t, _ in dom["types"]} | {"object", "nosuchtype"}

    def ok_form(x, top=True):
        if isinstance(x, str):
            if x.startswith("?"):
                return x in params or x in ("?z", "?w", "?xz", "?yw", "?nosuchvar")
            return x in KEYWORDS or x in consts or x in tnames or pddl.is_number(x) or x == "-" or x in names
        return all(ok_form(y, False) for y in x)
    for op in ops:
        if op[0] == "param-type":
            if op[1] >= len(a["params"]):
                raise pddl.Invalid("injection does not fit")
            a["params"][op[1]][1] = op[2]
            continue
        if not ok_form(op[1]):
            raise pddl.Invalid("injection refers to names the base domain no longer has")
        heads = [x[0] for x in pddl.walk(op[1]) if x and isinstance(x[0], str) and x[0] not in KEYWORDS and not x[0].startswith("?")]
        if any(h not in names for h in heads):
            raise pddl.Invalid("injection refers to names the base domain no longer has")
        if op[0] == "pre-add":
            a["pre"] = (list(a["pre"]) if a["pre"] else ["and"]) + [op[1]]
        elif op[0] == "eff-add":
            a["eff"] = list(a["eff"]) + [op[1]]
        elif op[0] == "pre-set":
            a["pre"] = op[1]
        elif op[0] == "eff-set":
            a["eff"] = op[1]
    return dom


def gen(ch, tier):
    ft = G.feats(max_actions=2, p_long_number=0.15, long_decimals=7)
    case = S.gen_sem_case(ch, tier, ft, n_probes=4)
    if case["dom"].get("typed", True) and len(case["dom"]["types"]) >= 2 and ch.flag(0.4):
        # the :types section written another way: children before parents, groups split, roots bare or implicit
        from pv.props import c06
        case["dom"]["type_decl"] = c06.draw_decl(ch, [list(p) for p in case["dom"]["types"]])
    if ch.flag(0.35):
        tag = ch.choice(OUTSIDE)
        ops = inject(ch, case["dom"], tag)
        if ops:
            case["outside"] = tag
            case["inject"] = {"ops": ops, "sig": ops_sig(ops)}
    return case


def plan(tier):
    if tier == "quick":
        return {"streams": {"main": 6400}, "shards": 16}
    return {"streams": {"main": 80000}, "shards": 16}
