"""C20 - grounding is substitution of the call's arguments for the parameters.

Oracle: pv.ref.pddl.substitute on the source formula; compared with what the library reports
through the operator's grounded preconditions iterator, each effect group's grounded discrete and
numeric effects, the typed form of every grounded literal and the typed action call."""
from fractions import Fraction

from pv import ctx
from pv.gen import domains as G
from pv.harness import build_objects, build_state, lib_objects, parse_domain, unjstate
from pv.lib import lib_call
from pv.props import sem_common as S
from pv.ref import pddl, sexpr
from pv.runner import Res

ID = "C20"
RULE = ("generated fragment-F actions x type-correct calls (repeated objects, constants in argument positions, "
        "objects of subtypes).  Compared both ways as sets: grounded precondition literals and numeric "
        "conditions, add/delete/numeric effects per effect group (with the group's grounded condition), typed "
        "literal text, typed action call; numeric expressions are read at 9 decimals (constants with up to 7), the function "
        "objects hanging in the grounded trees are read with their multiplicities, and every third call is read only "
        "after the operator answered applicability queries.  Non-trivial = the call repeats an object or uses a constant, or a "
        "literal's argument comes from a parameter whose type is a strict subtype of the predicate's declared "
        "type.  Distinct by (action, call).")
ASSUMPTIONS = ["literals inside (forall ...) groups are not compared: they have no ground form for a call",
               "numeric constants compared as exact rationals of the printed decimals (4 digits)"]


def ssort(it):
    """Sorted without duplicates: the comparison is between sets (a literal written twice in the
    source is one literal)."""
    out = []
    for x in sorted(it, key=repr):
        if not out or out[-1] != x:
            out.append(x)
    return out


def norm_expr(e):
    """Expression tree with numbers normalised."""
    if isinstance(e, str):
        return str(Fraction(e)) if pddl.is_number(e) else e
    return tuple(norm_expr(x) for x in e)


F_FREPEAT = "K2-function-repeat"   # a function term grounded with a repeated object prints each object once


def dedupe_fterms(x):
    """Defect model K2-function-repeat applied to a normalised expression / group structure."""
    if isinstance(x, (tuple, list)):
        if x and isinstance(x[0], str) and x[0] not in pddl.NUM_OPS and x[0] not in pddl.CMP_OPS \
                and x[0] not in pddl.ASSIGN_OPS and x[0] not in ("+", "-") and all(isinstance(t, str) for t in x):
            seen, out = set(), [x[0]]
            for t in x[1:]:
                if t not in seen:
                    seen.add(t)
                    out.append(t)
            return tuple(out)
        return tuple(dedupe_fterms(y) for y in x)
    return x


def leaves_of(cond, k3=False, top=True):
    """(literals, numeric conditions) of a condition outside forall groups; with k3 only the
    top-level ones of a conjunction."""
    lits, nums = [], []
    if not cond:
        return lits, nums

    def go(c, depth):
        h = c[0]
        if h in ("and", "or"):
            if k3 and depth >= 1:
                return
            for x in c[1:]:
                go(x, depth + 1)
        elif h == "forall":
            return
        elif h == "not":
            if c[1][0] == "=":
                return
            lits.append(("-", tuple(c[1])))
        elif h == "=" and isinstance(c[1], str) and not pddl.is_number(c[1]):
            return
        elif h in pddl.CMP_OPS:
            nums.append(norm_expr(c))
        else:
            lits.append(("+", tuple(c)))
    go(cond if cond[0] in ("and",) and top else ["and", cond], 0)
    return lits, nums


def object_pairs_of(cond):
    """(equalities, inequalities) between objects written at the top level of a (substituted) condition, as sets of
    unordered pairs."""
    eqs, neqs = set(), set()
    items = cond[1:] if cond and cond[0] == "and" else ([cond] if cond else [])
    for c in items:
        if c and c[0] == "=" and isinstance(c[1], str) and not pddl.is_number(c[1]):
            eqs.add(tuple(sorted(c[1:3])))
        elif c and c[0] == "not" and c[1][0] == "=" and isinstance(c[1][1], str) and not pddl.is_number(c[1][1]):
            neqs.add(tuple(sorted(c[1][1:3])))
    return eqs, neqs


def lib_object_pairs(grounded):
    """The same as the library holds them for a grounded condition; None when they are not where this reader looks (the
    library offers no public accessor: a differently organised library is not judged on this)."""
    root = getattr(getattr(grounded, "_grounded_precondition", None), "root", None)
    if root is None or not hasattr(root, "equality_preconditions") or not hasattr(root, "inequality_preconditions"):
        return None
    try:
        return ({tuple(sorted(p)) for p in root.equality_preconditions}, {tuple(sorted(p)) for p in root.inequality_preconditions})
    except TypeError:
        return None


def lib_leaves(iterable):
    from pddl_plus_parser.models import GroundedPredicate, NumericalExpressionTree
    lits, nums, typed = [], [], []
    for item in iterable:
        cond = item[1] if isinstance(item, tuple) else item
        if isinstance(cond, GroundedPredicate):
            lits.append(("+" if cond.is_positive else "-", (cond.name,) + tuple(cond.grounded_objects)))
            typed.append(str(cond))
        elif isinstance(cond, NumericalExpressionTree):
            nums.append(norm_expr(sexpr.read(cond.to_pddl(9))))
        else:
            raise TypeError(f"unexpected grounded item {type(cond).__name__}")
    return lits, nums, typed


def effect_groups(eff, env, k3):
    """Expected groups [(cond_lits, cond_nums, adds, dels, nums)] for the unconditional group and
    every non-quantified `when`."""
    sub = lambda x: pddl.substitute(x, env)
    groups = []
    base = [x for x in eff[1:] if x[0] not in ("when", "forall")]

    def split(items):
        adds = ssort(tuple(sub(x)) for x in items if x[0] != "not" and x[0] not in pddl.ASSIGN_OPS)
        dels = ssort(tuple(sub(x[1])) for x in items if x[0] == "not")
        nums = ssort(norm_expr(sub(x)) for x in items if x[0] in pddl.ASSIGN_OPS)
        return adds, dels, nums
    groups.append((None, None) + split(base))
    for x in eff[1:]:
        if x[0] == "when":
            lits, nums = leaves_of(sub(x[1]), k3)
            body = x[2][1:] if x[2][0] == "and" else [x[2]]
            groups.append((ssort(lits), ssort(nums)) + split(body))
    return ssort(groups)


def check_case(case):
    from pddl_plus_parser.models import Operator
    res = Res()
    dom, objects = case["dom"], case["objects"]
    pddl.validate_domain(dom, objects)
    pddl.validate_probes(dom, objects, case["probes"])
    ok, domain = parse_domain(dom, S.layout_of(case))
    if not ok:
        res.skipped = "domain-parse-error(C01)"
        return res
    world = pddl.World(dom, objects)
    objs = lib_objects(domain, build_objects(domain, objects))
    consts = {n for n, _ in dom["constants"]}
    preds = {n: sig for n, sig in dom["predicates"]}
    seen = set()
    n = 0
    for pr in case["probes"]:
        key = (pr["action"], tuple(pr["args"]))
        if key in seen:
            continue
        seen.add(key)
        a = pddl.find_action(dom, pr["action"])
        args = pr["args"]
        env = {p: o for (p, _), o in zip(a["params"], args)}
        ptype = {p: t for p, t in a["params"]}
        info = {"action": a, "args": args}
        with_objs = (n % 2 == 0)
        use_first = (n % 3 == 2)
        n += 1

        def run():
            op = Operator(domain.actions[a["name"]], domain, list(args), objs if with_objs else None)
            op.ground()
            if use_first:
                # the operator is used before its grounding is read: what it reports must still be the substituted schema
                state = build_state(domain, world, unjstate(pr["state"]))
                try:
                    op.is_applicable(state)
                    op.is_applicable(state)
                except Exception:  # noqa: the query's own failures are C02's business
                    pass
                if with_objs:
                    # ... and applied (also where it is not applicable): what the operator did to a state - to objects
                    # other than its arguments too - is no part of what it reports about itself
                    for flags in ({"allow_inapplicable_actions": True}, {"skip_validation": True}):
                        try:
                            op.apply(state, **flags)
                        except Exception:  # noqa: C03's business
                            pass
            pre = lib_leaves(op.grounded_preconditions)
            pairs = [("pre", a["pre"], lib_object_pairs(op.grounded_preconditions))]
            groups = []
            for ge in op.grounded_effects:
                adds = ssort((g.name,) + tuple(g.grounded_objects) for g in ge.grounded_discrete_effects if g.is_positive)
                dels = ssort((g.name,) + tuple(g.grounded_objects) for g in ge.grounded_discrete_effects if not g.is_positive)
                nums = ssort(norm_expr(sexpr.read(x.to_pddl(9))) for x in ge.grounded_numeric_effects)
                typed = [str(g) for g in ge.grounded_discrete_effects]
                if ge.grounded_antecedents is None:
                    cl = cn = None
                else:
                    l, m, t2 = lib_leaves(ge.grounded_antecedents)
                    cl, cn = ssort(l), ssort(m)
                    typed += t2
                groups.append(((cl, cn, adds, dels, nums), typed))
            # every function object hanging in the grounded trees, read with its multiplicities (the way a state prints it)
            from pddl_plus_parser.models import NumericalExpressionTree, PDDLFunction
            trees = [c[1] if isinstance(c, tuple) else c for c in op.grounded_preconditions]
            for ge in op.grounded_effects:
                trees += list(ge.grounded_numeric_effects) + ([c[1] if isinstance(c, tuple) else c for c in ge.grounded_antecedents]
                                                              if ge.grounded_antecedents is not None else [])
            fterms = set()
            for tr in trees:
                if isinstance(tr, NumericalExpressionTree):
                    for node in tr:
                        if node.is_leaf and isinstance(node.value, PDDLFunction):
                            fterms.add(tuple(sexpr.read(node.value.state_representation)[1]))
            return pre, groups, op.typed_action_call, str(op), fterms, pairs
        ok2, out = lib_call(run)
        if not ok2:
            res.bad(f"C20/ground/exception:{out.key}", {**info, "error": repr(out)})
            continue
        (lits, nums, typed), groups, tcall, call_str, fterms, pairs = out
        # object (in)equalities of the precondition: the pairs of call arguments at the compared parameters' positions
        for where, cond, got_pairs in pairs:
            if got_pairs is not None and cond:
                exp_pairs = object_pairs_of(pddl.substitute(cond, env))
                if got_pairs != exp_pairs:
                    res.bad("C20/preconditions/object-pairs-differ", {**info, "where": where, "expected": [sorted(exp_pairs[0]), sorted(exp_pairs[1])],
                                                                      "got": [sorted(got_pairs[0]), sorted(got_pairs[1])]})
        # function terms of the grounded trees: each is a function term of the substituted schema (same arguments, same
        # multiplicities); terms over quantified variables have no ground form and are not expected here
        fnames = {n for n, _ in dom["functions"]}
        exp_fterms = {tuple(x) for f in ([a["pre"]] if a["pre"] else []) + [a["eff"]] for x in pddl.walk(pddl.substitute(f, env))
                      if x and isinstance(x[0], str) and x[0] in fnames and all(isinstance(tk, str) for tk in x[1:])}
        stray = sorted(ft for ft in fterms if ft not in exp_fterms)
        if stray:
            res.bad("C20/function-term/not-in-the-substituted-schema", {**info, "stray": stray[:4], "expected": sorted(exp_fterms)[:8]})
        for k3 in (False, True):
            e_l, e_n = leaves_of(pddl.substitute(a["pre"], env) if a["pre"] else [], k3)
            pre_ok = ssort(e_l) == ssort(lits) and ssort(e_n) == ssort(nums)
            e_groups = effect_groups(a["eff"], env, k3)
            eff_ok = e_groups == ssort([g for g, _ in groups])
            if not (pre_ok and eff_ok) and ctx.active(F_FREPEAT):
                # numeric parts only: literals must still match exactly
                p2 = ssort(e_l) == ssort(lits) and ssort(dedupe_fterms(e_n)) == ssort(nums)
                g_exp = ssort((g[0], None if g[1] is None else tuple(ssort(dedupe_fterms(g[1]))), g[2], g[3], tuple(ssort(dedupe_fterms(g[4])))) for g in e_groups)
                g_got = ssort((g[0], None if g[1] is None else tuple(g[1]), g[2], g[3], tuple(g[4])) for g, _ in groups)
                if (not pre_ok and p2) or (not eff_ok and g_exp == g_got):
                    res.known.append(F_FREPEAT)
                pre_ok = pre_ok or p2                    # judged separately: a deviation in the effects must not
                eff_ok = eff_ok or g_exp == g_got        # be reported as one in the preconditions, and vice versa
            if pre_ok and eff_ok:
                if k3:
                    res.known.append(S.F_NESTED)
                break
            if not ctx.active(S.F_NESTED):
                break
        if not pre_ok:
            e_l, e_n = leaves_of(pddl.substitute(a["pre"], env) if a["pre"] else [])
            res.bad("C20/preconditions/literals-differ", {**info, "expected": [sorted(e_l, key=repr), sorted(e_n, key=repr)], "got": [sorted(lits, key=repr), sorted(nums, key=repr)]})
        if not eff_ok:
            res.bad("C20/effects/groups-differ", {**info, "expected": effect_groups(a["eff"], env, False),
                                                  "got": sorted([g for g, _ in groups], key=repr)})
        # typed form of every grounded literal: argument i carries the type of the action parameter
        # substituted there, a constant its own type
        exp_typed = set()
        for f in ([a["pre"]] if a["pre"] else []) + [a["eff"]]:
            for x in pddl.walk(f):
                if x and isinstance(x[0], str) and x[0] in preds and len(x) - 1 == len(preds[x[0]]):
                    if all(isinstance(t, str) and (t in ptype or t in consts) for t in x[1:]):
                        toks = [x[0]]
                        for t in x[1:]:
                            toks += [env.get(t, t), "-", ptype[t] if t in ptype else world.objects[t]]
                        exp_typed.add(tuple(toks))
        all_typed = list(typed) + [t for _, ts in groups for t in ts]
        for text in all_typed:
            try:
                tree = sexpr.read(text)
            except sexpr.Reject:
                res.bad("C20/typed/unreadable", {**info, "text": text})
                continue
            if tree and tree[0] == "not":
                tree = tree[1]
            if tuple(tree) not in exp_typed:
                res.bad("C20/typed/wrong-type-or-argument", {**info, "text": text, "expected_one_of": sorted(exp_typed, key=repr)})
        # typed action call: arguments in order, each with the parameter's type or the object's own type
        try:
            tc = sexpr.read(tcall)
            okc = tc[0] == a["name"] and len(tc) == 1 + 3 * len(args)
            for i, o in enumerate(args):
                okc = okc and tc[1 + 3 * i] == o and tc[2 + 3 * i] == "-" and tc[3 + 3 * i] in (a["params"][i][1], world.objects[o])
            okc = okc and sexpr.read(call_str) == [a["name"]] + list(args)
        except (sexpr.Reject, IndexError):
            okc = False
        if not okc:
            res.bad("C20/typed-action-call", {**info, "typed_call": tcall, "call": call_str})
        # classification
        rep = len(set(args)) < len(args)
        const = any(o in consts for o in args) or any(t in consts for f in (a["pre"] or [], a["eff"]) for x in pddl.walk(f) for t in x[1:] if isinstance(t, str))
        narrow = False
        for f in (a["pre"] or [], a["eff"]):
            for x in pddl.walk(f):
                if x and isinstance(x[0], str) and x[0] in preds and len(x) - 1 == len(preds[x[0]]):
                    for t, (_, dt) in zip(x[1:], preds[x[0]]):
                        if t in ptype and ptype[t] != dt:
                            narrow = True
        for lab, v in (("repeated-object", rep), ("constant", const), ("subtype-narrowing", narrow)):
            if v:
                res.classes.append(lab)
    res.classes = sorted(set(res.classes), key=repr) or ["plain"]
    res.nontrivial = res.classes != ["plain"]
    res.key = str(sorted(seen, key=repr)) + str(dom["actions"])
    res.evals = len(seen)
    return res


def gen(ch, tier):
    ft = G.feats(max_actions=2, p_when=0.6, p_long_number=0.12, long_decimals=7)
    return S.gen_sem_case(ch, tier, ft, n_probes=5)


def plan(tier):
    if tier == "quick":
        return {"streams": {"main": 10000}, "shards": 16}
    return {"streams": {"main": 120000}, "shards": 16}
