"""C05 - problem text is parsed faithfully and ill-formed facts are rejected.

Oracle: the generated problem AST plus an independent well-formedness check (declared names,
arities, declared objects, type conformance by the reference type closure, matching :domain).
Valid text must parse to exactly the AST; invalid text must raise."""
import json
from fractions import Fraction

from pv import ctx
from pv.gen import domains as G, problems as P
from pv.harness import parse_domain
from pv.lib import lib_call, parse_problem_text
from pv.props import c01
from pv.ref import extract, pddl, sexpr
from pv.runner import Res

ID = "C05"
RULE = ("problem ASTs over generated domains (typed, grouped, untyped and :private object lists, subtype objects, "
        "constants and repeated objects as arguments, 0-ary atoms, integer/decimal/negative/exponent values, numeric "
        "goals), and single-point corruptions of them (argument replaced by an object of another type, arity +-1, "
        "undeclared predicate/function/object, wrong :domain) in init facts, init fluents, goal literals and goal "
        "conditions; 40 % are parsed after another valid problem (declaring one more object) went through the same Domain "
        "object, which must come out with unchanged constants.  The reference decides validity (a replacement that still conforms by the type tree is valid). "
        "Non-trivial = a valid problem with a subtype or constant argument, or a corruption.  Distinct by problem text.")
ASSUMPTIONS = ["fluents of arity >= 3 with a repeated object are excluded (representation finding K2)",
               "negative goal literals are not generated (the library documents goals as positive facts + numeric conditions)"]

F_K6 = "K6-goal-conditions-unchecked"
F_TERN = "K2-ternary-repeat"   # a fluent of arity >= 3 with a repeated object is stored with its arguments re-ordered


def has_ternary_repeat(pr):
    terms = [k for k, _ in pr["fluents"]]
    for c in pr["goal_conds"]:
        terms += [x for x in pddl.walk(c[1:]) if x and isinstance(x[0], str) and x[0] not in pddl.NUM_OPS]
    return any(len(k) > 3 and len(set(k[1:])) < len(k) - 1 for k in terms)


def problem_errors(dom, pr, domain_name):
    """Reference well-formedness: list of reasons (empty = valid)."""
    errs = []
    T = pddl.Types(dom["types"] if dom.get("typed", True) else [])
    if domain_name != dom["name"]:
        errs.append("domain-name")
    objs = {}
    for n, t in pr["objects"]:
        if t not in T.parent:
            errs.append("object-type")
        objs[n] = t
    allo = dict(objs)
    for n, t in dom["constants"]:
        allo.setdefault(n, t)
    preds = {n: [t for _, t in sig] for n, sig in dom["predicates"]}
    funcs = {n: [t for _, t in sig] for n, sig in dom["functions"]}

    def chk(table, term, what):
        if not isinstance(term, list) or not term or term[0] not in table:
            errs.append(f"{what}-undeclared-name")
            return
        sig = table[term[0]]
        if len(term) - 1 != len(sig):
            errs.append(f"{what}-arity")
            return
        for a, t in zip(term[1:], sig):
            if a not in allo:
                errs.append(f"{what}-undeclared-object")
            elif not T.is_sub(allo[a], t):
                errs.append(f"{what}-type")

    def chk_expr(e, what):
        if isinstance(e, str):
            if not pddl.is_number(e):
                errs.append(f"{what}-bad-number")
            return
        if e and e[0] in pddl.NUM_OPS:
            if len(e) != 3:
                errs.append(f"{what}-nary")
                return
            chk_expr(e[1], what)
            chk_expr(e[2], what)
        else:
            chk(funcs, e, what)
    for f in pr["facts"]:
        chk(preds, f, "fact")
    for k, v in pr["fluents"]:
        chk(funcs, k, "fluent")
    for g in pr["goal_lits"]:
        chk(preds, g, "goal-literal")
    for c in pr["goal_conds"]:
        chk_expr(c[1], "goal-condition")
        chk_expr(c[2], "goal-condition")
    return errs


def read_problem(problem):
    """Library Problem -> plain data through public attributes / printed text."""
    out = {"name": problem.name, "objects": {n: o.type.name for n, o in problem.objects.items()}}
    facts = []
    for preds in problem.initial_state_predicates.values():
        for p in preds:
            facts.append(tuple([p.name] + list(p.grounded_objects)))
    out["facts"] = facts
    fl = []
    for f in problem.initial_state_fluents.values():
        tree = sexpr.read(f.state_representation)
        fl.append((tuple(tree[1]), f.value))
    out["fluents"] = fl
    out["goal_lits"] = [tuple([p.name] + list(p.grounded_objects)) + (() if p.is_positive else ("NEG",)) for p in problem.goal_state_predicates]
    out["goal_conds"] = [extract.x_expr(t.root) for t in problem.goal_state_fluents]
    return out


def compare(pr, got):
    d = []
    if got["name"] != pr["name"]:
        d.append(("name", pr["name"], got["name"]))
    exp_objs = {n: t for n, t in pr["objects"]}
    if got["objects"] != exp_objs:
        d.append(("objects", exp_objs, got["objects"]))
    ef = sorted(set(tuple(f) for f in pr["facts"]))
    if sorted(got["facts"]) != ef:
        d.append(("facts", ef, sorted(got["facts"])))
    efl = sorted((tuple(k), float(v)) for k, v in pr["fluents"])
    gfl = sorted(got["fluents"])
    if [k for k, _ in efl] != [k for k, _ in gfl] or any(a[1] != b[1] for a, b in zip(efl, gfl)):
        d.append(("fluents", efl, gfl))
    eg = sorted(set(tuple(g) for g in pr["goal_lits"]))
    if sorted(set(got["goal_lits"])) != eg:
        d.append(("goal-literals", eg, sorted(got["goal_lits"])))
    ec = c01.usort(c01.canon_cond(c) for c in pr["goal_conds"])
    gc = c01.usort(c01.canon_cond(c) for c in got["goal_conds"])
    if ec != gc:
        from pv.props.c20 import dedupe_fterms, F_FREPEAT
        dd = lambda conds: c01.usort(c01.canon_cond(x) for x in json.loads(json.dumps(dedupe_fterms(conds))))
        if ctx.active(F_FREPEAT) and dd(ec) == dd(gc):
            d.append(("KNOWN", F_FREPEAT, None))
        else:
            d.append(("goal-conditions", ec, gc))
    return d


def apply_corruption(dom, pr, c):
    pr = json.loads(json.dumps(pr))
    dn = dom["name"]
    if c is None:
        return pr, dn
    kind, where, i = c["kind"], c.get("where"), c.get("index", 0)
    if kind == "wrong-domain":
        return pr, c["name"]

    def target():
        if where == "fact":
            return pr["facts"][i]
        if where == "fluent":
            return pr["fluents"][i][0]
        if where == "goal_lit":
            return pr["goal_lits"][i]
        cond = pr["goal_conds"][i]
        for x in pddl.walk(cond[1:]):
            if x and isinstance(x[0], str) and x[0] not in pddl.NUM_OPS and x[0] not in pddl.CMP_OPS:
                return x
        raise pddl.Invalid("no function term to corrupt")
    try:
        t = target()
    except IndexError:
        raise pddl.Invalid("corruption index out of range")
    if kind == "swap-arg":
        j = c["pos"]
        if j + 1 >= len(t):
            raise pddl.Invalid("no such argument")
        t[j + 1] = c["object"]
    elif kind == "arity-less":
        if len(t) < 2:
            raise pddl.Invalid("nothing to drop")
        del t[-1]
    elif kind == "arity-more":
        t.append(c["object"])
    elif kind == "undeclared-name":
        t[0] = "nosuch"
    elif kind == "undeclared-object":
        if len(t) < 2:
            raise pddl.Invalid("no argument")
        t[1 + c["pos"] % (len(t) - 1)] = "ghost"
    else:
        raise pddl.Invalid("unknown corruption")
    return pr, dn


def check_case(case):
    res = Res()
    dom = case["dom"]
    pddl.validate_domain(dom, [])
    base_errs = problem_errors(dom, case["problem"], dom["name"])
    if base_errs:
        raise pddl.Invalid(f"generated problem is not valid: {base_errs}")
    decl = case["problem"].get("object_decl")
    if decl is not None:
        declared = []

        def walk_decl(groups):
            for g in groups:
                if isinstance(g, dict):
                    walk_decl(g["private"])
                else:
                    if not g[0]:
                        raise pddl.Invalid("empty object group")
                    declared.extend([n, g[1] if g[1] is not None else "object"] for n in g[0])
        walk_decl(decl)
        if sorted(declared) != sorted([list(o) for o in case["problem"]["objects"]]):
            raise pddl.Invalid("object declaration does not match the object table")
        public = [g for g in decl if not isinstance(g, dict)]       # (a private block is a list of its own)
        if any(g[1] is None for g in public[:-1]):
            raise pddl.Invalid("untyped names only at the end of the public object list")
    pr, dname = apply_corruption(dom, case["problem"], case.get("corrupt"))
    keys = [tuple(k) for k, _ in pr["fluents"]]
    if len(set(keys)) != len(keys):
        res.skipped = "fluent-assigned-twice"
        return res
    errs = problem_errors(dom, pr, dname)
    if not errs and has_ternary_repeat(pr) and ctx.active(F_TERN):
        res.known.append(F_TERN)     # excluded by construction, counted
        res.skipped = "ternary-repeat(known finding)"
        return res
    ok, domain = parse_domain(dom)
    if not ok:
        res.skipped = "domain-parse-error(C01)"
        return res
    lay = sexpr.Layout(case["layout"], case.get("case_mode", 0)) if case.get("layout") else None
    text = sexpr.render(P.problem_tree(dom, pr, dname), lay)
    consts_before = None
    if case.get("earlier"):
        # another (valid) problem parsed over the same Domain object first; it declares an object named "ghost" of
        # the first argument's type of every fact: what one problem declares is unknown to the next, and a
        # domain is not changed by the problems read against it
        base = case["problem"]
        ghost_t = (dom["types"][0][0] if dom.get("typed", True) and dom["types"] else "object")
        earlier = dict(base, name="earlier", objects=[list(o) for o in base["objects"]] + [["ghost", ghost_t]], object_decl=None)
        consts_before = sorted(domain.constants)
        lib_call(parse_problem_text, sexpr.render(P.problem_tree(dom, earlier, dom["name"])), domain)
    okp, prob = lib_call(parse_problem_text, text, domain)
    if consts_before is not None and sorted(domain.constants) != consts_before:
        res.bad("C05/domain-constants-changed-by-parsing-problems", {"before": consts_before, "after": sorted(domain.constants)})
        return res
    T = pddl.Types(dom["types"] if dom.get("typed", True) else [])
    consts = {n for n, _ in dom["constants"]}
    objt = dict((n, t) for n, t in pr["objects"])
    sig = {n: s for n, s in dom["predicates"] + dom["functions"]}
    subtype_arg = any(a in objt and n in sig and j < len(sig[n]) and objt[a] != sig[n][j][1]
                      for n, *args in pr["facts"] + [k for k, _ in pr["fluents"]] for j, a in enumerate(args))
    const_arg = any(a in consts for _, *args in pr["facts"] + [k for k, _ in pr["fluents"]] for a in args)
    corrupted = case.get("corrupt") is not None
    res.nontrivial = corrupted or subtype_arg or const_arg
    res.classes = [("corrupt:" + case["corrupt"]["kind"] + ":" + str(case["corrupt"].get("where")) + (":still-valid" if not errs else "")) if corrupted
                   else "valid" + ("+subtype" if subtype_arg else "") + ("+const" if const_arg else "")]
    res.key = text
    info = {"problem": text, "domain": sexpr.flat(pddl.domain_tree(dom))}
    if errs:
        if okp:
            only_goal_cond = all(e in ("goal-condition-undeclared-object", "goal-condition-type") for e in errs)
            if only_goal_cond and ctx.active(F_K6):
                res.known.append(F_K6)
            else:
                res.bad("C05/accepts-invalid/" + errs[0], {**info, "reasons": errs})
        return res
    if not okp:
        res.bad(f"C05/rejects-valid/exception:{prob.key}", {**info, "error": repr(prob)})
        return res
    if case.get("later"):
        # one more (valid) problem over the same Domain object, read after the one under test: other values for every
        # fluent, one fact less, one object more; what was returned before stays what it was
        base = case["problem"]
        later = dict(base, name="later", objects=[list(o) for o in base["objects"]] + [["latecomer", "object"]], object_decl=None,
                     fluents=[[k, "77" if str(v) != "77" else "78"] for k, v in base["fluents"]], facts=list(base["facts"][1:]),
                     goal_lits=list(base["goal_lits"][1:]))
        lib_call(parse_problem_text, sexpr.render(P.problem_tree(dom, later, dom["name"])), domain)
        res.classes = [c + "+later" for c in res.classes]
    okr, got = lib_call(read_problem, prob)
    if not okr:
        res.bad(f"C05/readback/exception:{got.key}", {**info, "error": repr(got)})
        return res
    for what, exp, g in compare(pr, got):
        if what == "KNOWN":
            res.known.append(exp)
        else:
            res.bad(f"C05/unfaithful/{what}", {**info, "expected": exp, "got": g})
    return res


def gen_corruption(ch, dom, pr):
    wheres = [w for w, lst in (("fact", pr["facts"]), ("fluent", pr["fluents"]), ("goal_lit", pr["goal_lits"]),
                               ("goal_cond", pr["goal_conds"])) for _ in lst[:1]]
    kinds = [(3, "swap-arg"), (2, "arity-less"), (2, "arity-more"), (2, "undeclared-name"), (2, "undeclared-object"), (1, "wrong-domain")]
    kind = ch.weighted(kinds)
    if kind == "wrong-domain" or not wheres:
        return {"kind": "wrong-domain", "name": ch.choice(["other", dom["name"] + "x", "dom", dom["name"] + "-", dom["name"] + "_", "_" + dom["name"], dom["name"] + "-" + dom["name"]])}
    where = ch.choice(wheres)
    n = len({"fact": pr["facts"], "fluent": pr["fluents"], "goal_lit": pr["goal_lits"], "goal_cond": pr["goal_conds"]}[where])
    allobjs = [n_ for n_, _ in pr["objects"]] + [n_ for n_, _ in dom["constants"]]
    return {"kind": kind, "where": where, "index": ch.int(0, n - 1), "pos": ch.int(0, 2),
            "object": ch.choice(allobjs) if allobjs else "ghost"}


def gen(ch, tier):
    ft = G.feats(max_actions=1, when=False, forall_eff=False, nested=False, forall_pre=False, max_arity=3,
                 typed=not ch.flag(0.15))
    dom, _ = G.gen_domain(ch, ft)
    pr = P.gen_problem(ch, dom, ternary_repeat=not ctx.active(F_TERN))
    case = {"dom": dom, "problem": pr, "corrupt": None,
            "layout": [ch.int(0, 64) for _ in range(ch.int(0, 10))], "case_mode": ch.weighted([(6, 0), (1, 1), (1, 3)])}
    if ch.flag(0.55):
        c = gen_corruption(ch, dom, pr)
        try:
            apply_corruption(dom, pr, c)
            case["corrupt"] = c
        except pddl.Invalid:
            pass
    if ch.flag(0.4):
        case["earlier"] = True
    if ch.side("later").flag(0.4):
        case["later"] = True
    return case


def plan(tier):
    if tier == "quick":
        return {"streams": {"main": 12000}, "shards": 16}
    return {"streams": {"main": 120000}, "shards": 16}
