"""Shared pieces of the behavioural properties (C01 C02 C03 C08 C18 C20): case generation,
defect-model views of formulas, classification helpers."""
from fractions import Fraction

from pv import ctx
from pv.gen import domains as G
from pv.harness import jstate, unjstate
from pv.ref import pddl

F_NESTED = "K3"    # K3: nested and/or groups and forall preconditions are treated as true

GROUP_HEADS = ("and", "or", "forall", "exists", "imply")


def k3_view(pre):
    """Defect model K3: of a conjunctive precondition only the top-level leaves are evaluated;
    nested and/or groups and forall groups are treated as true."""
    if not pre:
        return pre
    if pre[0] != "and":
        return pre
    return ["and"] + [c for c in pre[1:] if not (c and c[0] in GROUP_HEADS)]


def k3_cond(cond):
    """K3 applied to a `when` condition: (and ...) is flattened by the parser; a single condition
    is wrapped."""
    if cond and cond[0] == "and":
        return k3_view(cond)
    return k3_view(["and", cond])


def k3_effect(eff):
    """Effect with every `when` condition replaced by its K3 view."""
    if not isinstance(eff, list) or not eff:
        return eff
    h = eff[0]
    if h == "when":
        return ["when", k3_cond(eff[1]), eff[2]]
    if h == "and":
        return ["and"] + [k3_effect(x) for x in eff[1:]]
    if h == "forall":
        return ["forall", eff[1], k3_effect(eff[2])]
    return eff


def has_nested(pre):
    return bool(pre) and pre[0] == "and" and any(c and c[0] in GROUP_HEADS for c in pre[1:])


def when_conditions(eff):
    for x in pddl.walk(eff):
        if x and x[0] == "when":
            yield x[1]


def features_of(action):
    """Feature labels of an action (for non-triviality rules and histograms)."""
    f = set()
    pre, eff = action.get("pre") or [], action["eff"]
    for x in pddl.walk(pre):
        if not x:
            continue
        h = x[0]
        if h == "not":
            f.add("pre-eq-neg" if x[1][0] == "=" else "pre-neg")
        elif h == "or":
            f.add("pre-or")
        elif h == "forall":
            f.add("pre-forall")
        elif h in pddl.CMP_OPS and not (h == "=" and isinstance(x[1], str)):
            f.add("pre-num")
        elif h == "=":
            f.add("pre-eq")
    if has_nested(pre):
        f.add("pre-nested")
    for x in pddl.walk(eff):
        if not x:
            continue
        if x[0] == "when":
            f.add("eff-when")
        elif x[0] == "forall":
            f.add("eff-forall")
        elif x[0] in pddl.ASSIGN_OPS:
            f.add("eff-num")
        elif x[0] == "not":
            f.add("eff-del")
    return f


def force_literals(pre, env, st):
    """Make the top-level literal leaves of a conjunctive precondition true in the state (so that
    generated cases are applicable more often).  Pure function of its inputs."""
    facts = set(st[0])
    if pre and pre[0] == "and":
        for c in pre[1:]:
            if not c:
                continue
            if c[0] == "not" and c[1][0] not in ("=",):
                facts.discard((c[1][0],) + tuple(env.get(t, t) for t in c[1][1:]))
        for c in pre[1:]:
            if c and c[0] not in GROUP_HEADS and c[0] != "not" and c[0] not in pddl.CMP_OPS:
                facts.add((c[0],) + tuple(env.get(t, t) for t in c[1:]))
    return frozenset(facts), st[1]


def gen_sem_case(ch, tier, ft=None, n_probes=6, force=0.0, same_action=False):
    """{dom, objects, probes: [{action, args, state}], perm: [ints]}"""
    ft = dict(ft or G.DEFAULT)
    if ft.get("typed", True) and not ft.get("typed_fixed"):
        ft["typed"] = not ch.flag(0.12)    # untyped domains: everything is of type object
    dom, objects = G.gen_domain(ch, ft)
    world = pddl.World(dom, objects)
    probes = []
    a0 = ch.choice(dom["actions"])
    args0 = G.gen_call(ch, world, a0)
    for _ in range(ch.int(2, n_probes)):
        a = a0 if same_action else ch.choice(dom["actions"])
        args = args0 if (same_action and ch.flag(0.5)) else G.gen_call(ch, world, a)
        if args is None:
            continue
        pb = ft.get("p_big_values", 0.0)
        st = G.gen_state(ch, world, values=G.BIG_VALUES if pb and ch.flag(pb) else None)
        if force and ch.flag(force):
            env = {p: o for (p, _), o in zip(a["params"], args)}
            st = force_literals(a["pre"], env, st)
        probes.append({"action": a["name"], "args": args, "state": jstate(st)})
    return {"dom": dom, "objects": objects, "probes": probes,
            "perm": [ch.int(0, 23) for _ in range(ch.int(0, 6))],
            "layout": [ch.int(0, 64) for _ in range(ch.int(0, 12))], "case_mode": ch.weighted([(6, 0), (1, 1), (1, 2)])}


def layout_of(case):
    from pv.ref import sexpr
    if not case.get("layout") and not case.get("case_mode"):
        return None
    return sexpr.Layout(case.get("layout") or [0], case.get("case_mode", 0))
