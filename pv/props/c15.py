"""C15 - sequential-to-joint plan conversion keeps actions, agent order and outcome.

Oracle: validity predicates over the returned joint plan, evaluated with the reference interpreter:
(1) conservation - the multiset of non-nop entries equals the plan's actions; (2) each agent's actions
keep their order; (3) one slot per agent in the given agent order, slot i holds nop or an action of
agent i; (4) every member is applicable in its step's pre-state; (5) members of a step do not
interfere (every order executable, all orders confluent); (6) the joint plan reaches the sequential
plan's final state."""
import itertools
import json
from pathlib import Path

from pv import ctx
from pv.gen import domains as G
from pv.harness import parse_domain, problem_text, unjstate, jstate
from pv.lib import lib_call, parse_problem_text, write_tmp
from pv.props import c16
from pv.ref import pddl, sexpr
from pv.runner import Res

ID = "C15"
RULE = ("valid sequential plans (random walks through the reference's applicable actions, length <= 30) over "
        "generated multi-agent STRIPS and numeric domains with 2-4 agents (every action's first parameter is its "
        "agent; shared 0-ary and constant-argument atoms make interference possible), with and without the "
        "shared-object concurrency constraint, in both plan-file layouts ('(a x)' and '3: (a x)').  Non-trivial = the "
        "result has a step with >= 2 members and another with exactly 1; plus the 5 sequential plans the repository's converter tests use (constraint on / off, agent list as given / reversed) read by the reference parser.  With the constraint on, members of a step "
        "must not share an argument (the documented meaning of the switch).  Distinct by (domain, problem, plan, switch).")
ASSUMPTIONS = ["plans whose reference execution is undefined at some step (conflicting effects, division by zero) are not generated",
               "non-interference is decided semantically: every order of a step's members is executable and all reach one state"]


F_K10 = "K10-converter-ignores-preconditions"


def converter_criterion_holds(dom, members):
    """Defect model K10: what the converter does check - no fact added by one member and deleted by
    another, no fluent written by two members (unconditional effects; C15 domains have no others)."""
    adds, dels, writes = [], [], []
    for m in members:
        a = pddl.find_action(dom, m[0])
        env = {p: o for (p, _), o in zip(a["params"], m[1:])}
        A, D, W = set(), set(), set()
        for e in a["eff"][1:]:
            if e[0] == "not":
                D.add(tuple(pddl.substitute(e[1], env)))
            elif e[0] in pddl.ASSIGN_OPS:
                W.add(tuple(pddl.substitute(e[1], env)))
            elif e[0] not in ("when", "forall"):
                A.add(tuple(pddl.substitute(e, env)))
        adds.append(A)
        dels.append(D)
        writes.append(W)
    for i in range(len(members)):
        for j in range(len(members)):
            if i != j and (adds[i] & dels[j] or (i < j and writes[i] & writes[j])):
                return False
    return True


def model_converter_raises(dom, world, init, plan, agents, strict):
    """Defect model K10 as an executable description of what the converter does: greedy steps of at most two
    consecutive actions of different agents, the second admitted when it is applicable in the tracked state and
    the criterion the converter does apply holds; a step is then applied member by member in *slot* order on
    the tracked state.  Because interference through preconditions and right-hand sides goes unnoticed, the
    tracked state can drift from the plan's, and apply_actions later refuses a member (ValueError).  Returns
    True when this model predicts that refusal for the given plan."""
    st = init
    i, n = 0, len(plan)
    try:
        while i < n:
            members = [plan[i]]
            i += 1
            if i < n:
                nxt = plan[i]
                a0, a1 = executing_agent(members[0], agents), executing_agent(nxt, agents)
                shared = set(members[0][1:]) & set(nxt[1:])
                if a1 is not None and a1 != a0 and not (strict and shared) and pddl.applicable(dom, world, nxt, st) \
                        and converter_criterion_holds(dom, [members[0], nxt]):
                    members.append(nxt)
                    i += 1
            members.sort(key=lambda m: agents.index(executing_agent(m, agents)))
            if not all(pddl.applicable(dom, world, m, st) for m in members):
                return True
            for m in members:
                st = pddl.apply(dom, world, m, st)
    except (pddl.Undefined, pddl.Ambiguous, pddl.Conflict, ValueError, TypeError):
        return True       # the tracked state left the region the reference can follow: the model predicts nothing definite
    return False


def gen_walk(ch, dom, world, st, max_len):
    ground = []
    for a in dom["actions"]:
        for call in world.calls(a):
            ground.append([a["name"]] + list(call))
    plan = []
    for _ in range(ch.int(1, max_len)):
        if pddl.beyond_float(st):
            break
        apps = []
        for g in ch.sample(ground, min(len(ground), 16)):
            try:
                if pddl.applicable(dom, world, g, st):
                    nxt = pddl.apply(dom, world, g, st)
                    apps.append((g, nxt))
            except (pddl.Undefined, pddl.Ambiguous, pddl.Conflict):
                continue
        if not apps:
            break
        g, st = ch.choice(apps)
        plan.append(g)
    return plan, st


T = "tests/multi_agent_tests/"
DEPOT_AGENTS = ["depot0", "depot1", "depot2", "depot3", "distributor0", "distributor1", "distributor2", "distributor3",
                "driver0", "driver1", "driver2", "driver3"]
WOOD_AGENTS = ["glazer0", "grinder0", "highspeed-saw0", "immersion-varnisher0", "planer0", "saw0", "spray-varnisher0"]
# the (domain, problem, sequential plan, agents) quadruples the repository's converter tests use
SHIPPED = [(T + "sokoban_domain.pddl", T + "sokoban_problem.pddl", T + "sokoban_plan.txt", ["player-01", "player-02"]),
           (T + "combined_domain.pddl", T + "combined_problem.pddl", T + "woodworking_plan.txt", WOOD_AGENTS),
           (T + "depots_domain.pddl", T + "depots_problem.pddl", T + "depots_plan.txt", DEPOT_AGENTS),
           (T + "blocks_socs_experiment/original_domain.pddl", T + "blocks_socs_experiment/original_problem_3.pddl",
            T + "blocks_socs_experiment/sol.txt", ["a1", "a2", "a3"]),
           (T + "satellite_numeric_multi_agent/metricSat.pddl", T + "satellite_numeric_multi_agent/pfile010.pddl",
            T + "satellite_numeric_multi_agent/pfile010.solution", None)]


def check_file(case, res):
    """A shipped sequential plan: reference parser + interpreter judge what PlanConverter returns."""
    import os
    from pddl_plus_parser.lisp_parsers import DomainParser, ProblemParser
    from pddl_plus_parser.multi_agent import PlanConverter
    from pv.ref import parse as rparse
    repo = os.environ.get("PV_REPO", "/repo")
    dpath, ppath, plpath = (os.path.join(repo, case[k]) for k in ("domain_file", "problem_file", "plan_file"))
    strict = bool(case["concurrency_constraint"])
    res.key = json.dumps([case["plan_file"], strict, case.get("agents")])
    try:
        dom = rparse.parse_domain(open(dpath).read())
        prob = rparse.parse_problem(open(ppath).read(), dom)
        plan = rparse.read_plan(open(plpath).read())
        world = pddl.World(dom, prob["objects"])
        agents = case.get("agents") or sorted(o for o, t in prob["objects"] if t == case.get("agent_type", "satellite"))
        st = prob["state"]
        for s in plan:
            if not pddl.applicable(dom, world, s, st):
                res.skipped = "shipped-plan-not-valid-for-the-reference"
                return res
            st = pddl.apply(dom, world, s, st)
    except (rparse.Unsupported, sexpr.Reject, OSError, KeyError, IndexError, pddl.Undefined, pddl.Ambiguous, pddl.Conflict, pddl.Invalid) as e:
        res.skipped = f"reference-unsupported:{type(e).__name__}"
        return res
    if case.get("reverse_agents"):
        agents = list(reversed(agents))

    def run():
        domain = DomainParser(Path(dpath), partial_parsing=False).parse_domain()
        problem = ProblemParser(Path(ppath), domain).parse_problem()
        return PlanConverter(domain).convert_plan(problem, Path(plpath), list(agents), strict)
    okc, joint = lib_call(run)
    info = {**case, "agents": agents}
    if not okc:
        if ctx.active(F_K10) and joint.type == "ValueError" and "apply" in joint.where and \
                model_converter_raises(dom, world, prob["state"], plan, agents, strict):
            res.known.append(F_K10)
            return res
        res.bad(f"C15/file/convert/exception:{joint.key}", {**info, "error": repr(joint)})
        return res
    judge(res, info, dom, world, prob["state"], st, plan, agents, strict, joint)
    res.classes = ["shipped-plan" + ("+strict" if strict else "+free")]
    res.nontrivial = True
    return res


def chunk_cases(tier, chunk):
    n = 0
    for d, p, pl, agents in SHIPPED:
        for strict in (True, False):
            for rev in (False, True):
                if n % chunk[1] == chunk[0]:
                    yield {"kind": "file", "domain_file": d, "problem_file": p, "plan_file": pl, "agents": agents,
                           "concurrency_constraint": strict, "reverse_agents": rev}
                n += 1


def check_case(case):
    from pddl_plus_parser.multi_agent import PlanConverter
    res = Res()
    if case.get("kind") == "file":
        return check_file(case, res)
    dom, objects, plan = case["dom"], case["objects"], case["plan"]
    pddl.validate_domain(dom, objects)
    world = pddl.validate_probes(dom, objects, [{"action": s[0], "args": s[1:], "state": case["init"]} for s in plan])
    if not plan:
        res.skipped = "empty-plan"
        return res
    agents = list(case["agents"])
    all_agents = [o for o, t in objects if t == "agent"]
    if sorted(agents) != sorted(all_agents):
        raise pddl.Invalid("agent list must be a permutation of the agents")
    for s in plan:
        a = pddl.find_action(dom, s[0])
        if not a["params"] or a["params"][0][1] != "agent":
            raise pddl.Invalid("first parameter must be the agent")
    for a in dom["actions"]:
        if {"when", "forall"} & pddl.heads(a["eff"]):
            raise pddl.Invalid("C15 domains are STRIPS / numeric (no conditional effects)")
    init = unjstate(case["init"])
    # the sequential plan must be valid
    st = init
    try:
        for s in plan:
            if not pddl.applicable(dom, world, s, st):
                raise pddl.Invalid("sequential plan is not valid")
            st = pddl.apply(dom, world, s, st)
            if pddl.beyond_float(st):
                res.skipped = "magnitude-beyond-float-precision"
                return res
    except (pddl.Undefined, pddl.Ambiguous, pddl.Conflict):
        raise pddl.Invalid("sequential plan has an undefined step")
    final = st
    ok, domain = parse_domain(dom)
    if not ok:
        res.skipped = "domain-parse-error(C01)"
        return res
    okp, problem = lib_call(parse_problem_text, problem_text(dom, objects, init), domain)
    if not okp:
        res.skipped = "problem-parse-error(C05)"
        return res
    numbered = case.get("numbered", False)
    text = "".join((f"{i}: " if numbered else "") + "(" + " ".join(s) + ")\n" for i, s in enumerate(plan))
    path = write_tmp(text, suffix=".plan")
    strict = bool(case.get("concurrency_constraint", True))
    info = {"domain": sexpr.flat(pddl.domain_tree(dom)), "init": case["init"], "plan": plan, "agents": agents,
            "concurrency_constraint": strict}
    okc, joint = lib_call(PlanConverter(domain).convert_plan, problem, Path(path), agents, strict)
    res.key = json.dumps([dom, case["init"], plan, agents, strict], sort_keys=True)
    if not okc:
        if ctx.active(F_K10) and joint.type == "ValueError" and "apply" in joint.where and \
                model_converter_raises(dom, world, init, [[x.lower() for x in s] for s in plan], agents, strict):
            res.known.append(F_K10)      # the converter's own tracked state drifted (interference it does not see)
            return res
        res.bad(f"C15/convert/exception:{joint.key}", {**info, "error": repr(joint)})
        return res
    return judge(res, info, dom, world, init, final, plan, agents, strict, joint)


def executing_agent(m, agents):
    """The converter's definition: the first agent name among the arguments."""
    for x in m[1:]:
        if x in agents:
            return x
    return None


def judge(res, info, dom, world, init, final, plan, agents, strict, joint):
    steps = [[[a.name] + list(a.parameters) for a in j.actions] for j in joint]
    info["joint_plan"] = steps
    sizes = [sum(1 for m in s if m[0] != "nop") for s in steps]
    res.nontrivial = any(k >= 2 for k in sizes) and any(k == 1 for k in sizes)
    res.classes = [("multi" if any(k >= 2 for k in sizes) else "singletons") + ("+strict" if strict else "+free")]
    # (3) slots
    for i, s in enumerate(steps):
        if len(s) != len(agents):
            res.bad("C15/slots/count", {**info, "step": i})
            return res
        for ag, m in zip(agents, s):
            if m[0] != "nop" and executing_agent(m, agents) != ag:
                res.bad("C15/slots/wrong-agent-slot", {**info, "step": i, "slot_agent": ag, "entry": m})
                return res
            if m[0] == "nop" and len(m) != 1:
                res.bad("C15/slots/nop-with-arguments", {**info, "step": i})
                return res
        if all(m[0] == "nop" for m in s):
            res.bad("C15/slots/empty-step", {**info, "step": i})
            return res
    # (3b) the documented meaning of the switch: with the concurrency constraint on, no object (agents included)
    #      is an argument of two members of one step
    if strict:
        for i, s_ in enumerate(steps):
            members = [m for m in s_ if m[0] != "nop"]
            for x in range(len(members)):
                for y in range(x + 1, len(members)):
                    common = sorted(set(members[x][1:]) & set(members[y][1:]))
                    if common:
                        res.bad("C15/concurrency-constraint/members-share-object",
                                {**info, "step": i, "members": [members[x], members[y]], "shared": common})
                        return res
    flat = [m for s in steps for m in s if m[0] != "nop"]
    if sorted(map(tuple, flat)) != sorted(tuple(x.lower() for x in s) for s in plan):
        res.bad("C15/conservation", {**info, "lost": [list(x) for x in set(map(tuple, plan)) - set(map(tuple, flat))],
                                     "invented": [list(x) for x in set(map(tuple, flat)) - set(map(tuple, plan))]})
        return res
    # (2) per-agent order
    for ag in agents:
        if [m for m in flat if executing_agent(m, agents) == ag] != [[x.lower() for x in s] for s in plan if executing_agent([x.lower() for x in s], agents) == ag]:
            res.bad("C15/agent-order", {**info, "agent": ag})
            return res
    # (4)(5)(6)
    st = init
    for i, s in enumerate(steps):
        members = [m for m in s if m[0] != "nop"]
        kind, nxt = c16.classify(dom, world, members, st)
        if kind == "inapplicable":
            res.bad("C15/member-inapplicable-in-step-pre-state", {**info, "step": i, "pre_state": jstate(st)})
            return res
        if kind == "interfering":
            if ctx.active(F_K10) and converter_criterion_holds(dom, members):
                res.known.append(F_K10)     # interference through a precondition or a numeric read
                return res
            res.bad("C15/interfering-members-grouped", {**info, "step": i, "pre_state": jstate(st), "members": members})
            return res
        if kind == "undefined":
            res.skipped = "undefined-joint-step"
            return res
        st = nxt
    if not pddl.states_equal(st, final):
        res.bad("C15/final-state", {**info, "diff": pddl.state_diff(final, st)})
    res.evals = len(steps)
    return res


def add_delete_pair(ch, dom):
    """Makes two different actions add and delete the same unary fact through parameters whose types may differ
    (equal, or one a subtype of the other): the interference every converter must see, also across schemas."""
    T = pddl.Types(dom["types"])
    unary = [p for p in dom["predicates"] if len(p[1]) == 1]
    if not unary or len(dom["actions"]) < 2:
        return
    p = ch.choice(unary)
    a1, a2 = ch.sample(dom["actions"], 2)
    def fitting(a):
        return [v for v, ty in a["params"][1:] if T.is_sub(ty, p[1][0][1])]
    f1, f2 = fitting(a1), fitting(a2)
    if not f1 or not f2:
        return
    x1, x2 = ch.choice(f1), ch.choice(f2)
    ty = lambda a, v: dict(a["params"])[v]
    for _ in range(4):          # prefer parameters whose types differ (one a subtype of the other, or both of the predicate's)
        if ty(a1, x1) != ty(a2, x2):
            break
        x1, x2 = ch.choice(f1), ch.choice(f2)
    if [p[0], x1] not in a1["eff"][1:] and ["not", [p[0], x1]] not in a1["eff"][1:]:
        a1["eff"].append([p[0], x1])
    if ["not", [p[0], x2]] not in a2["eff"][1:] and [p[0], x2] not in a2["eff"][1:]:
        a2["eff"].append(["not", [p[0], x2]])


def gen(ch, tier):
    numeric = ch.flag(0.4)
    ft = c16.ma_feats(numeric=numeric, when=False, forall_eff=False, max_actions=4, max_params=3, empty_pre=True)
    dom, objects = G.gen_domain(ch, ft)
    if ch.flag(0.7):
        add_delete_pair(ch, dom)
    world = pddl.World(dom, objects)
    init = G.gen_state(ch, world, density=ch.choice([0.5, 0.8]))
    plan, _ = gen_walk(ch, dom, world, init, 12 if tier == "quick" else 30)
    agents = ch.shuffle([o for o, t in objects if t == "agent"])
    if not plan:
        # fall back: an action with an empty precondition is always applicable
        plan = []
    return {"dom": dom, "objects": objects, "init": jstate(init), "plan": plan, "agents": agents,
            "concurrency_constraint": ch.flag(0.5), "numbered": ch.flag(0.3)}


def gen_retry(ch, tier):
    for _ in range(20):
        case = gen(ch, tier)
        if len(case["plan"]) >= 2:
            return case
    return case


def plan(tier):
    ex = {"exhaustive": [(i, 10) for i in range(10)], "exhaustive_is_complete": True,
          "exhaustive_note": "the 5 sequential multi-agent plans the repository's converter tests use x constraint on/off x "
                             "agent list as given / reversed, judged by the reference parser + interpreter"}
    if tier == "quick":
        return {**ex, "streams": {"retry": 6400}, "shards": 16}
    return {**ex, "streams": {"retry": 60000}, "shards": 16}
