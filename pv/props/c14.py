"""C14 - states behave as values: equality, copy and serialization agree.

Oracle: reference states (fact set, fluent map).  Library states are built along independent routes
(problem parser, trajectory parser, direct construction in permuted order, copy, successor of a
neighbouring state); == must coincide with reference equality, copies must be equal and independent,
and serializations must read back (independent reader and TrajectoryParser.parse_state) as equal
states exactly for equal states."""
import itertools
import json
from collections import defaultdict
from fractions import Fraction

from pv import ctx
from pv.harness import (build_objects, build_state, lib_objects, parse_domain, problem_text, read_lib_state,
                        read_state_text, unjstate, jstate, BadState)
from pv.lib import lib_call, parse_problem_text
from pv.ref import pddl, sexpr
from pv.runner import Res

ID = "C14"
RULE = ("all states of a 2-object universe (p/1, q/2, z/0; f/1, g/0 over 3 values; 3456 states) each built along a "
        "route chosen by its index (problem parser, trajectory parser, direct construction in permuted insertion "
        "order, copy, successor of a neighbouring state, facts additionally stored under their arguments' own subtype, a "
        "neighbouring state read once and then edited in place through its public containers, facts carrying the is_masked flag), compared pairwise in blocks (all ordered pairs of each "
        "block), plus random larger states over a 3-object universe with a binary fluent, values of 1-15 significant digits and magnitudes 1e-14..1e21 (pairs also one relative step of 1e-3..1e-13 apart), -0.0 produced by an effect "
        "and repeated arguments.  Non-trivial = a pair that differs in exactly one fact or one value, or an equal "
        "pair built by two different routes.  Distinct by (state pair, routes).")
ASSUMPTIONS = ["fluent values are floats (as every parser of the library produces them)"]

DOM = {"name": "d", "typed": True, "types": [["t", "object"], ["s", "t"]], "constants": [],
       "predicates": [["p", [["?a", "t"]]], ["q", [["?a", "t"], ["?b", "t"]]], ["z", []]],
       "functions": [["f", [["?a", "t"]]], ["g", []], ["h", [["?a", "t"], ["?b", "t"]]]],
       "actions": [
           {"name": "addp", "params": [["?x", "t"]], "pre": ["and"], "eff": ["and", ["p", "?x"]]},
           {"name": "delp", "params": [["?x", "t"]], "pre": ["and"], "eff": ["and", ["not", ["p", "?x"]]]},
           {"name": "addq", "params": [["?x", "t"], ["?y", "t"]], "pre": ["and"], "eff": ["and", ["q", "?x", "?y"]]},
           {"name": "delq", "params": [["?x", "t"], ["?y", "t"]], "pre": ["and"], "eff": ["and", ["not", ["q", "?x", "?y"]]]},
           {"name": "addz", "params": [], "pre": ["and"], "eff": ["and", ["z"]]},
           {"name": "delz", "params": [], "pre": ["and"], "eff": ["and", ["not", ["z"]]]},
           {"name": "incf", "params": [["?x", "t"]], "pre": ["and"], "eff": ["and", ["increase", ["f", "?x"], "1"]]},
           {"name": "decg", "params": [], "pre": ["and"], "eff": ["and", ["decrease", ["g"], "1"]]},
           {"name": "zerog", "params": [], "pre": ["and"], "eff": ["and", ["assign", ["g"], ["*", "-1", "0"]]]},
       ]}
ROUTES = ["problem", "trajectory", "direct", "direct-permuted", "copy", "successor", "direct-variants", "edited-in-place",
          "direct-masked"]
VALS = [Fraction(0), Fraction(1), Fraction(-3, 2)]

_CACHE = {}


def setup(objects):
    key = json.dumps(objects)
    if key not in _CACHE:
        ok, domain = parse_domain(DOM)
        if not ok:
            raise RuntimeError(f"fixed C14 domain does not parse: {domain!r}")
        world = pddl.World(DOM, objects)
        _CACHE[key] = (domain, world, lib_objects(domain, build_objects(domain, objects)))
    return _CACHE[key]


def small_state(idx):
    """index in [0, 3456) -> reference state over objects a, b (no h fluents)."""
    atoms = [("p", "a"), ("p", "b"), ("q", "a", "a"), ("q", "a", "b"), ("q", "b", "a"), ("q", "b", "b"), ("z",)]
    bits, idx = idx % 128, idx // 128
    facts = frozenset(a for i, a in enumerate(atoms) if bits >> i & 1)
    fl = {}
    for k in [("f", "a"), ("f", "b"), ("g",)]:
        fl[k] = VALS[idx % 3]
        idx //= 3
    return facts, fl


def build(route, st, objects, salt=0):
    """Library state for reference state st along a route."""
    from pddl_plus_parser.lisp_parsers import TrajectoryParser
    from pddl_plus_parser.models import Operator, State
    domain, world, objs = setup(objects)
    if route == "problem":
        prob = parse_problem_text(problem_text(DOM, objects, st), domain)
        return State(prob.initial_state_predicates, prob.initial_state_fluents, is_init=True)
    if route == "trajectory":
        facts = " ".join(sexpr.flat(list(a)) for a in sorted(st[0], reverse=bool(salt % 2)))
        fl = " ".join(f"(= {sexpr.flat(list(k))} {float(v)!r})" for k, v in sorted(st[1].items(), reverse=bool(salt % 2)))
        tree = sexpr.read(f"(:state {fl} {facts})")
        prob = parse_problem_text(problem_text(DOM, objects, (frozenset(), {})), domain)
        return TrajectoryParser(domain, prob if salt % 3 else None).parse_state(tree[1:])
    if route == "direct":
        return build_state(domain, world, st, is_init=bool(salt % 2))
    if route == "direct-permuted":
        s = build_state(domain, world, st)
        preds = defaultdict(set)
        for k in reversed(list(s.state_predicates)):
            preds[k] = set(reversed(list(s.state_predicates[k])))
        return State(preds, {k: s.state_fluents[k] for k in reversed(list(s.state_fluents))}, is_init=False)
    if route == "copy":
        return build_state(domain, world, st).copy()
    if route == "direct-masked":
        # every other fact carries the observability mask (a constructor flag of ground facts): a masked fact is
        # still a fact of the state - for equality, for copies and for the text
        s = build_state(domain, world, st)
        n = 0
        for key in sorted(s.state_predicates):
            for g in sorted(s.state_predicates[key], key=str):
                n += 1
                if n % 2 == salt % 2:
                    g.is_masked = True
        return s
    if route == "direct-variants":
        # facts over objects of the subtype also stored under the object's own type (as add effects leave them)
        return build_state(domain, world, st, variants=True)
    if route == "edited-in-place":
        # a neighbouring state, read once in every way (text, typed text, ==), then edited through its public
        # containers into st
        from pddl_plus_parser.models import GroundedPredicate
        atoms = sorted(world.ground_atoms())
        a = atoms[salt % len(atoms)]
        fl = dict(st[1])
        fkeys = sorted(fl)
        fk = fkeys[salt % len(fkeys)] if fkeys else None
        if fk is not None:
            fl[fk] = fl[fk] + 1
        nb = (frozenset(st[0] - {a}) if a in st[0] else frozenset(st[0] | {a}), fl)
        s = build_state(domain, world, nb)
        s.serialize(), s.typed_serialize(), str(s), s == s
        lifted = domain.predicates[a[0]]
        key = lifted.untyped_representation
        if a in st[0]:
            mapping = {param: obj for obj, param in zip(a[1:], lifted.signature)}
            s.state_predicates.setdefault(key, set()).add(GroundedPredicate(name=a[0], signature=lifted.signature, object_mapping=mapping))
        else:
            for g in list(s.state_predicates.get(key, ())):
                if tuple(g.grounded_objects) == tuple(a[1:]):
                    s.state_predicates[key].discard(g)
        if fk is not None:
            for f in s.state_fluents.values():
                if read_fluent_key(f) == fk:
                    f.set_value(float(st[1][fk]))
        return s
    if route == "successor":
        # reach st from a neighbour that differs in one fact (or one fluent step)
        atoms = sorted(world.ground_atoms())
        a = atoms[salt % len(atoms)]
        if a in st[0]:
            nb = (frozenset(st[0] - {a}), st[1])
            call = {"p": "addp", "q": "addq", "z": "addz"}[a[0]]
        else:
            nb = (frozenset(st[0] | {a}), st[1])
            call = {"p": "delp", "q": "delq", "z": "delz"}[a[0]]
        op = Operator(domain.actions[call], domain, list(a[1:]), objs)
        return op.apply(build_state(domain, world, nb))
    raise KeyError(route)


def read_fluent_key(f):
    """(name, objects...) of a library fluent, read from its printed form."""
    tree = sexpr.read(f.state_representation)
    return tuple(tree[1])


def one_apart(s1, s2):
    df = len(set(s1[0]) ^ set(s2[0]))
    dv = sum(1 for k in set(s1[1]) | set(s2[1]) if s1[1].get(k) != s2[1].get(k))
    return df + dv == 1


def check_pair(res, objects, s1, r1, s2, r2, salt, info):
    from pddl_plus_parser.lisp_parsers import TrajectoryParser
    ok1, l1 = lib_call(build, r1, s1, objects, salt)
    ok2, l2 = lib_call(build, r2, s2, objects, salt + 1)
    if not ok1 or not ok2:
        bad = l1 if not ok1 else l2
        res.bad(f"C14/build/{r1 if not ok1 else r2}/exception:{bad.key}", {**info, "error": repr(bad)})
        return
    exp = pddl.states_equal(s1, s2, tol=Fraction(0))
    okc, out = lib_call(lambda: (l1 == l2, l2 == l1, l1 == l1))
    if not okc:
        res.bad(f"C14/eq/exception:{out.key}", {**info, "error": repr(out)})
        return
    e12, e21, e11 = out
    if not e11:
        res.bad("C14/eq/not-reflexive", info)
    if e12 != e21:
        res.bad("C14/eq/not-symmetric", {**info, "a==b": e12, "b==a": e21})
    if e12 != exp:
        res.bad("C14/eq/" + ("unequal-but-same-content" if exp else "equal-but-different-content"),
                {**info, "serialized": [l1.serialize(), l2.serialize()]})
    # serialization: reads back to its own content; equal texts only for equal states
    for l, s, tag in ((l1, s1, "a"), (l2, s2, "b")):
        try:
            back = read_lib_state(l)
        except BadState as e:
            res.bad("C14/serialize/unreadable", {**info, "text": l.serialize(), "error": str(e)})
            return
        if not pddl.states_equal(back, s, tol=Fraction(0)):
            res.bad("C14/serialize/content", {**info, "which": tag, "diff": pddl.state_diff(s, back)})
            return
    domain, world, _ = setup(objects)
    # one parser object reads both texts in every other case (states read earlier stay what they were)
    shared = TrajectoryParser(domain, None) if salt % 2 == 0 else None
    okp, parsed = lib_call(lambda: [(shared or TrajectoryParser(domain, None)).parse_state(sexpr.read(l.serialize())[1:]) for l in (l1, l2)])
    if not okp:
        res.bad(f"C14/reparse/exception:{parsed.key}", {**info, "error": repr(parsed)})
        return
    if (parsed[0] == parsed[1]) != exp or not (parsed[0] == l1) or not (l2 == parsed[1]):
        res.bad("C14/reparse/equality", {**info, "texts": [l1.serialize(), l2.serialize()]})


def check_copy(res, objects, s, route, salt, info):
    ok, l = lib_call(build, route, s, objects, salt)
    if not ok:
        return
    before = read_lib_state(l)
    c = l.copy()
    if not (c == l) or not (l == c):
        res.bad("C14/copy/not-equal", info)
        return
    # mutate the copy's containers, a fact and a fluent: the original must not change
    for k in list(c.state_predicates):
        for p in list(c.state_predicates[k]):
            for kk in list(p.object_mapping):
                p.object_mapping[kk] = "zz"      # in place: the copy must own its facts
            p.is_positive = False
        c.state_predicates[k].clear()
    c.state_predicates["(new )"] = set()
    for f in c.state_fluents.values():
        f.set_value(12345.0)
        f.signature.clear()
    from pddl_plus_parser.models import PDDLFunction
    newf = PDDLFunction(name="g", signature={})
    newf.set_value(7.0)
    c.state_fluents["(brand-new )"] = newf       # a new key in the copy's mapping (also when the mapping was empty)
    c.state_fluents.clear()
    c.state_fluents["(brand-new )"] = newf
    try:
        after = read_lib_state(l)
    except BadState as e:
        res.bad("C14/copy/original-changed-by-mutating-copy", {**info, "unreadable-after": str(e)})
        return
    if not pddl.states_equal(before, after, tol=Fraction(0)):
        res.bad("C14/copy/original-changed-by-mutating-copy", {**info, "diff": pddl.state_diff(before, after)})
        return
    # and the other way round
    c2 = l.copy()
    snap = read_lib_state(c2)
    for k in list(l.state_predicates):
        l.state_predicates[k].clear()
    for f in l.state_fluents.values():
        f.set_value(-777.0)
    try:
        snap2 = read_lib_state(c2)
    except BadState:
        snap2 = None
    if snap2 is None or not pddl.states_equal(snap, snap2, tol=Fraction(0)):
        res.bad("C14/copy/copy-changed-by-mutating-original", info)


def check_case(case):
    res = Res()
    objects = case["objects"]
    if case["kind"] == "block":
        idx = case["idx"]
        n = 0
        nt = 0
        for i, j in itertools.product(range(len(idx)), repeat=2):
            s1, s2 = small_state(idx[i]), small_state(idx[j])
            r1, r2 = ROUTES[(idx[i] + case["salt"]) % len(ROUTES)], ROUTES[(idx[j] * 7 + case["salt"] + 1) % len(ROUTES)]
            info = {"a": jstate(s1), "route_a": r1, "b": jstate(s2), "route_b": r2}
            check_pair(res, objects, s1, r1, s2, r2, idx[i] + idx[j], info)
            n += 1
            if one_apart(s1, s2) or (idx[i] == idx[j] and r1 != r2):
                nt += 1
            if res.disc:
                break
        for i in idx[:3]:
            check_copy(res, objects, small_state(i), ROUTES[i % len(ROUTES)], i, {"state": jstate(small_state(i))})
        res.evals = n
        res.nontrivial = nt > 0
        res.classes = ["block"]
        res.key = json.dumps(case)
        return res
    s1, s2 = unjstate(case["a"]), unjstate(case["b"])
    world = pddl.World(DOM, objects)
    atoms, fls = set(world.ground_atoms()), set(world.ground_fluents())
    for s in (s1, s2):
        if not set(s[0]) <= atoms or not set(s[1]) <= fls:
            raise pddl.Invalid("state outside the universe")
    r1, r2 = case["route_a"], case["route_b"]
    if r1 not in ROUTES or r2 not in ROUTES:
        raise pddl.Invalid("route")
    info = {"a": case["a"], "route_a": r1, "b": case["b"], "route_b": r2}
    check_pair(res, objects, s1, r1, s2, r2, case.get("salt", 0), info)
    check_copy(res, objects, s1, r1, case.get("salt", 0), {"state": case["a"], "route": r1})
    if case.get("negzero"):
        # -0.0 reached through an effect must equal 0.0 from a parser
        from pddl_plus_parser.models import Operator
        domain, world2, objs = setup(objects)
        base = (s1[0], {**s1[1], ("g",): Fraction(5)})
        okz, lz = lib_call(lambda: Operator(domain.actions["zerog"], domain, [], objs).apply(build_state(domain, world2, base)))
        target = (s1[0], {**s1[1], ("g",): Fraction(0)})
        okt, lt = lib_call(build, "problem", target, objects, 0)
        if okz and okt and not (lz == lt and lt == lz):
            res.bad("C14/eq/negative-zero", {**info, "serialized": [lz.serialize(), lt.serialize()]})
    eq = pddl.states_equal(s1, s2, tol=Fraction(0))
    res.nontrivial = one_apart(s1, s2) or (eq and r1 != r2)
    res.classes = ["equal" if eq else ("one-apart" if one_apart(s1, s2) else "different")]
    res.evals = 2
    return res


def gen_value(ch):
    """A decimal with 1-15 significant digits and a magnitude between 1e-14 and 1e21 (exactly recoverable from
    the shortest text of its float, so distinct decimals are distinct values)."""
    nd = ch.int(1, 15)
    m = int(str(ch.int(1, 9)) + "".join(ch.choice("0123456789") for _ in range(nd - 1)))
    v = Fraction(m) * Fraction(10) ** ch.int(-14 - (nd - 1), 7)
    return -v if ch.flag(0.3) else v


def gen(ch, tier):
    objects = [["a", "t"], ["b", "s"], ["c", "t"]]
    world = pddl.World(DOM, objects)
    atoms, fls = sorted(world.ground_atoms()), sorted(world.ground_fluents())
    vals = [Fraction(x) for x in ["0", "1", "-1.5", "2.25", "1000000", "0.1", "-0.001", "3"]]
    if ch.flag(0.5):
        vals = vals[:3] + [gen_value(ch) for _ in range(5)]
    facts = frozenset(a for a in atoms if ch.flag(0.4))
    fl = {k: ch.choice(vals) for k in fls if ch.flag(0.7)} if not ch.flag(0.1) else {}     # 1 in 10: no fluent at all
    s1 = (facts, fl)
    kind = ch.weighted([(3, "same"), (3, "one-fact"), (3, "one-value"), (1, "drop-fluent"), (2, "other")])
    f2, fl2 = set(facts), dict(fl)
    if kind == "one-fact":
        a = ch.choice(atoms)
        f2 ^= {a}
    elif kind == "one-value" and fl2:
        k = ch.choice(sorted(fl2))
        rel = fl2[k] * Fraction(1, 10 ** ch.int(3, 13)) if fl2[k] else Fraction(1, 10 ** 9)
        fl2[k] = fl2[k] + ch.choice([Fraction(1), Fraction(1, 10 ** 6), Fraction(-1, 2), rel, rel])
        if Fraction(repr(float(fl2[k]))) != fl2[k]:          # keep the value exactly recoverable from its float
            fl2[k] = Fraction(repr(float(fl2[k])))
    elif kind == "drop-fluent" and fl2:
        del fl2[ch.choice(sorted(fl2))]
    elif kind == "other":
        f2 = {a for a in atoms if ch.flag(0.4)}
        fl2 = {k: ch.choice(vals) for k in fls if ch.flag(0.7)}
    return {"kind": "pair", "objects": objects, "a": jstate(s1), "b": jstate((frozenset(f2), fl2)),
            "route_a": ch.choice(ROUTES), "route_b": ch.choice(ROUTES), "salt": ch.int(0, 50), "negzero": ch.flag(0.2)}


def chunk_cases(tier, chunk):
    part, nparts, block, nblocks = chunk
    objects = [["a", "t"], ["b", "s"]]
    for b in range(nblocks):
        if b % nparts != part:
            continue
        # a block = consecutive neighbours (differ in few bits) + far-away states
        start = (b * 577) % 3456
        idx = [(start + i) % 3456 for i in range(block // 2)] + [(start * 31 + i * 997) % 3456 for i in range(block - block // 2)]
        yield {"kind": "block", "objects": objects, "idx": idx, "salt": b}


def plan(tier):
    if tier == "quick":
        return {"exhaustive": [(i, 16, 16, 64) for i in range(16)], "streams": {"main": 8000}, "shards": 16,
                "exhaustive_is_complete": False,
                "exhaustive_note": "64 blocks of 16 states of the 3456-state universe, all ordered pairs within a block (16k pairs)"}
    return {"exhaustive": [(i, 64, 40, 640) for i in range(64)], "streams": {"main": 60000}, "shards": 16,
            "exhaustive_is_complete": False,
            "exhaustive_note": "640 blocks of 40 states covering every state of the 3456-state universe several times, all ordered pairs within a block (1.0M pairs)"}
