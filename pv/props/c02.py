"""C02 - an action is reported applicable exactly when its precondition is true.

Oracle: pv.ref.pddl.holds on the source formula (exact rationals) versus
Operator(action, domain, args, objects).is_applicable(state) of the library."""
import itertools
import json
from fractions import Fraction

from pv import ctx
from pv.gen import domains as G
from pv.harness import build_objects, build_state, lib_objects, parse_domain, state_via_problem, unjstate, jstate
from pv.lib import lib_call
from pv.props import sem_common as S
from pv.ref import pddl
from pv.runner import Res

ID = "C02"
RULE = ("generated fragment-F domains (typed/untyped, subtypes, constants, negative literals, (in)equality, numeric "
        "comparisons, nested and/or, forall) x type-correct calls (repeated objects, constants, subtype objects) x "
        "states total on all ground fluents (small values, or large values a small absolute distance apart; constants with "
        "up to 6 decimals; a third of the cases hand the Operator the problem's own object table without the domain "
        "constants; every third probe re-uses a State object, every other case re-uses the Operator "
        "objects); plus an exhaustive sweep of every precondition with <= 2 top-level "
        "leaves + <= 1 nested group + <= 1 forall over a fixed vocabulary x every call over a 3-object universe x "
        "every assignment of the ground atoms the formula mentions x 3 fluent valuations.  One evaluation = one "
        "(formula, call, state) triple.  Non-trivial = the precondition is not a single literal and, over the "
        "states tried for its (formula, call), both truth values occur.  Distinct by (formula, call).")
ASSUMPTIONS = ["problem objects handed to Operator are the problem's objects plus the domain constants",
               "comparisons closer than 1e-7 (relative) to their decision boundary are skipped as ambiguous",
               "predicates and functions never share a name; quantified variables never shadow parameters"]


def lib_applicable(domain, action_name, args, objs, state, ops=None):
    """ops: a dict of Operator objects to re-use for the same call (an operator may be queried any number of
    times, on any states); None = a fresh operator."""
    from pddl_plus_parser.models import Operator

    def run():
        key = (action_name, tuple(args))
        if ops is not None and key in ops:
            op = ops[key]
        else:
            op = Operator(domain.actions[action_name], domain, list(args), objs)
            if ops is not None:
                ops[key] = op
        return op.is_applicable(state)
    return lib_call(run)


def judge(res, tag, pre, env, st, world, ok, got, info):
    """Compare one library answer with the reference; returns the reference truth value or None."""
    try:
        exp = pddl.holds(pre, env, st, world)
    except (pddl.Undefined, pddl.Ambiguous) as e:
        res.skipped = type(e).__name__
        return None
    if ok and got == exp:
        return exp
    if ctx.active(S.F_NESTED) and S.has_nested(pre):
        try:
            model = pddl.holds(S.k3_view(pre), env, st, world)
        except (pddl.Undefined, pddl.Ambiguous):
            model = None
        if ok and got == model:
            res.known.append(S.F_NESTED)
            return exp
    if not ok:
        res.bad(f"{tag}/exception:{got.key}", {**info, "error": repr(got)})
    else:
        res.bad(f"{tag}/mismatch:lib={got}", {**info, "expected": exp, "got": got})
    return exp


def check_case(case):
    res = Res()
    if case.get("kind") == "sweep":
        return check_sweep(case, res)
    dom, objects = case["dom"], case["objects"]
    pddl.validate_domain(dom, objects)
    pddl.validate_probes(dom, objects, case["probes"])
    ok, domain = parse_domain(dom, S.layout_of(case))
    if not ok:
        res.skipped = "domain-parse-error(C01)"
        return res
    world = pddl.World(dom, objects)
    objs = lib_objects(domain, build_objects(domain, objects))
    if len(json.dumps(case["probes"])) % 3 == 0:
        # callers also hand over the problem's own object table (Problem.objects, without the domain's constants):
        # a call naming a constant must be judged all the same
        objs = build_objects(domain, objects)
        res.classes.append("plain-problem-objects")
    truth = {}
    prev_state = None
    ops = {}
    for i, pr in enumerate(case["probes"]):
        a = pddl.find_action(dom, pr["action"])
        st = unjstate(pr["state"])
        env = {p: o for (p, _), o in zip(a["params"], pr["args"])}
        if i == 0:
            okp, ps = lib_call(state_via_problem, domain, dom, objects, st)
            if not okp:
                res.skipped = "problem-parse-error(C05)"
                return res
            state = ps[1]
        elif i % 3 == 2 and prev_state is not None:
            # the same State object with its content replaced in place: answers must follow the content
            fresh = build_state(domain, world, st)
            state = prev_state
            state.state_predicates.clear()
            state.state_predicates.update(fresh.state_predicates)
            state.state_fluents.clear()
            state.state_fluents.update(fresh.state_fluents)
            res.classes.append("state-object-reused")
        else:
            state = build_state(domain, world, st)
        prev_state = state
        if (i + len(case["probes"])) % 2 == 1:
            # every other probe asks a copy of the state (taken before the original was asked anything)
            okc, cp = lib_call(state.copy)
            if okc:
                state = cp
                res.classes.append("state-copy")
        # probes of one call share an Operator object in every other case
        ok2, got = lib_applicable(domain, a["name"], pr["args"], objs, state, ops if len(case["probes"]) % 2 else None)
        exp = judge(res, "C02/applicable", a["pre"], env, st, world, ok2, got,
                    {"pre": a["pre"], "args": pr["args"], "state": pr["state"]})
        if exp is not None:
            truth.setdefault((a["name"], tuple(pr["args"])), set()).add(exp)
        for f in S.features_of(a):
            if f.startswith("pre-"):
                res.classes.append(f)
    res.classes = sorted(set(res.classes)) or ["plain"]
    nonliteral = any(len((pddl.find_action(dom, n).get("pre") or ["and"])) > 2 or S.has_nested(pddl.find_action(dom, n).get("pre"))
                     for n, _ in truth)
    res.nontrivial = nonliteral and any(len(v) == 2 for v in truth.values())
    res.evals = len(case["probes"])
    return res


# ---- bounded exhaustive sweep ---------------------------------------------------------------------
SW_DOM = {"name": "d", "typed": True, "types": [["t", "object"], ["s", "t"]], "constants": [["k", "s"]],
          "predicates": [["p", [["?a", "t"]]], ["q", [["?a", "t"], ["?b", "t"]]], ["r", []]],
          "functions": [["f", [["?a", "t"]]], ["g", []]], "actions": []}
SW_OBJECTS = [["a", "t"], ["b", "s"]]
SW_PARAMS = [["?x", "t"], ["?y", "s"]]
SW_LEAVES = [["p", "?x"], ["not", ["p", "?y"]], ["q", "?x", "?y"], ["not", ["q", "?y", "k"]], ["r"], ["not", ["r"]],
             ["=", "?x", "?y"], ["not", ["=", "?x", "?y"]], [">=", ["f", "?x"], "1"], ["<", ["f", "?y"], ["g"]],
             ["=", ["g"], "2"], ["p", "k"]]
SW_GLEAVES = [["p", "?y"], ["not", ["p", "?x"]], ["q", "?y", "?x"], ["not", ["r"]], ["=", "?x", "?y"], ["<=", ["f", "?x"], ["g"]]]
SW_QLEAVES = [["p", "?z"], ["not", ["q", "?x", "?z"]], [">", ["f", "?z"], "0"], ["r"]]
SW_VALS = [{"f": Fraction(0), "g": Fraction(2)}, {"f": Fraction(1), "g": Fraction(1)}, {"f": Fraction(5, 2), "g": Fraction(3)}]


def sweep_formulas():
    """Index -> formula, deterministic enumeration."""
    tops = [[]] + [[l] for l in SW_LEAVES] + [[a, b] for a, b in itertools.combinations(SW_LEAVES, 2)]
    groups = [None]
    for op in ("or", "and"):
        groups += [[op, l] for l in SW_GLEAVES]
        groups += [[op, a, b] for a, b in itertools.combinations(SW_GLEAVES, 2)]
    foralls = [None]
    for qt in ("t", "s"):
        for op in ("and", "or"):
            foralls += [["forall", ["?z", "-", qt], [op, l]] for l in SW_QLEAVES]
            foralls += [["forall", ["?z", "-", qt], [op, a, b]] for a, b in itertools.combinations(SW_QLEAVES, 2)]
    return tops, groups, foralls


def mentioned_atoms(pre, env, world):
    """Ground atoms a formula can read under env (forall instantiated)."""
    out = set()

    def go(c, env):
        if not c:
            return
        h = c[0]
        if h in ("and", "or"):
            for x in c[1:]:
                go(x, env)
        elif h == "not":
            go(c[1], env)
        elif h == "forall":
            v, _, qt = c[1]
            for o in world.of_type(qt):
                go(c[2], {**env, v: o})
        elif h in pddl.CMP_OPS:
            return
        else:
            out.add((h,) + tuple(env.get(t, t) for t in c[1:]))
    go(pre, env)
    return sorted(out)


def chunk_cases(tier, chunk):
    part, nparts, stride = chunk
    tops, groups, foralls = sweep_formulas()
    n = 0
    for ti, top in enumerate(tops):
        for gi, grp in enumerate(groups):
            for fi, fa in enumerate(foralls):
                if grp is None and fa is None and len(top) < 2:
                    pass
                n += 1
                if n % nparts != part:
                    continue
                if stride > 1 and (n // nparts) % stride != 0:
                    continue
                items = list(top) + ([grp] if grp else []) + ([fa] if fa else [])
                yield {"kind": "sweep", "pre": ["and"] + items}


_SW = {}


def check_sweep(case, res):
    pre = case["pre"]
    dom = dict(SW_DOM)
    dom["actions"] = [{"name": "act", "params": SW_PARAMS, "pre": pre, "eff": ["and", ["r"]]}]
    ok, domain = parse_domain(dom)
    if not ok:
        res.bad(f"C02/sweep/parse-exception:{domain.key}", {"pre": pre, "error": repr(domain)})
        return res
    world = pddl.World(dom, SW_OBJECTS)
    objs = lib_objects(domain, build_objects(domain, SW_OBJECTS))
    fluent_keys = world.ground_fluents()
    seen_truth = set()
    n_eval = 0
    sweep_ops = {}
    for args in world.calls(dom["actions"][0]):
        env = {"?x": args[0], "?y": args[1]}
        atoms = mentioned_atoms(pre, env, world)
        if len(atoms) > 8:
            atoms = atoms[:8]
        for bits in itertools.product([0, 1], repeat=len(atoms)):
            facts = frozenset(a for a, b in zip(atoms, bits) if b)
            for vi, vals in enumerate(SW_VALS):
                fl = {k: vals[k[0]] + (Fraction(1, 2) if (len(k) > 1 and k[1] == "b") else 0) for k in fluent_keys}
                st = (facts, fl)
                state = build_state(domain, world, st)
                if vi == 1:
                    state = state.copy()
                ok2, got = lib_applicable(domain, "act", args, objs, state, sweep_ops if vi else None)
                exp = judge(res, "C02/sweep", pre, env, st, world, ok2, got,
                            {"pre": pre, "args": list(args), "state": jstate(st)})
                n_eval += 1
                if exp is not None:
                    seen_truth.add(exp)
                if res.disc:
                    return res
    res.nontrivial = len(seen_truth) == 2 and len(pre) > 2
    res.evals = n_eval
    res.classes = ["sweep"]
    return res


def gen(ch, tier):
    ft = G.feats(forall_eff=False, when=False, max_actions=1, p_long_number=0.1, long_decimals=6, p_big_values=0.12,
                 max_params=ch.choice([3, 3, 4, 5]))
    case = S.gen_sem_case(ch, tier, ft, n_probes=8)
    a = case["dom"]["actions"][0]
    if len(a["params"]) >= 4 and ch.flag(0.5):
        # several object (in)equalities over disjoint pairs of parameters, and calls that bind each pair alike or not
        ps = [p for p, _ in a["params"]]
        pairs = [(ps[0], ps[1]), (ps[2], ps[3])]
        pre = a["pre"] if a["pre"] else ["and"]
        for x, y in pairs:
            pre = pre + [["=", x, y] if ch.flag(0.7) else ["not", ["=", x, y]]]
        a["pre"] = pre
        types = [ty for _, ty in a["params"]]
        for pr in case["probes"]:
            if pr["action"] == a["name"]:
                for i, j in ((0, 1), (2, 3)):
                    if ch.flag(0.6) and types[i] == types[j]:
                        pr["args"][j] = pr["args"][i]
    return case


def plan(tier):
    if tier == "quick":
        return {"exhaustive": [(i, 16, 40) for i in range(16)], "streams": {"main": 8000}, "shards": 16,
                "exhaustive_is_complete": False,
                "exhaustive_note": "1/40 stride of the formula space (thorough sweeps all of it), each formula under "
                                   "every call x every assignment of its mentioned atoms x 3 fluent valuations"}
    return {"exhaustive": [(i, 64, 1) for i in range(64)], "streams": {"main": 160000}, "shards": 16,
            "exhaustive_is_complete": True,
            "exhaustive_note": "every precondition (<=2 top leaves of 12, <=1 nested and/or group of <=2 leaves, <=1 forall "
                               "over t or s of <=2 leaves) x every call over {a,b,k} x every assignment of mentioned atoms x 3 valuations"}
