"""C04 - a plan is turned into the trajectory that the transition function dictates.

Oracle: step-by-step reference execution of the plan from the problem's initial state.  The list of
triplets returned by TrajectoryExporter.parse_plan and the exported text (read back with the
independent reader) must have one step per plan line in order, start in the initial state, chain,
follow the reference successor on applicable steps and leave the state unchanged on refused ones;
a direct Operator.apply of an inapplicable step must raise."""
import json

from pv import ctx
from pv.harness import (build_objects, build_state, lib_objects, parse_domain, problem_text, read_lib_state,
                        read_state_tree, unjstate, BadState)
from pv.lib import lib_call, parse_problem_text, write_tmp
from pv.props import plan_common as PC, sem_common as S
from pv.ref import pddl, sexpr
from pv.runner import Res

ID = "C04"
RULE = ("generated (domain, problem, plan) triples: plans of 1..N type-correct calls, each step drawn from the "
        "reference's currently applicable ground actions (p=0.7) or from all ground actions, so refused steps occur at "
        "every position; with and without allow_invalid_actions; plan lines in lower or upper case, passed as a list or (40 %) read from a plan file with indentation, trailing blanks and CRLF.  Non-trivial = plan "
        "length >= 3 containing both an applicable and an inapplicable step.  Distinct by (domain, init, plan, switch).")
ASSUMPTIONS = ["once a step has no defined reference outcome (conflicting effects, undefined value, or an inapplicable "
               "step executed under allow_invalid_actions) only chaining is checked for the rest of the plan",
               "the exporter is given the problem as parsed by the library's own problem parser"]

F_CONST = "D17-forall-constants"


def check_case(case):
    from pddl_plus_parser.exporters import TrajectoryExporter
    from pddl_plus_parser.models import Operator, State
    res = Res()
    if case.get("kind") == "file":
        return check_file(case, res)
    world = PC.validate_plan_case(case)
    dom, objects, plan = case["dom"], case["objects"], case["plan"]
    allow = bool(case.get("allow"))
    init = unjstate(case["init"])
    ok, domain = parse_domain(dom)
    if not ok:
        res.skipped = "domain-parse-error(C01)"
        return res
    okp, problem = lib_call(parse_problem_text, problem_text(dom, objects, init), domain)
    if not okp:
        res.skipped = "problem-parse-error(C05)"
        return res
    k3 = ctx.active(S.F_NESTED)
    ref = PC.reference_run(dom, world, init, plan, k3)
    lines = [PC.call_text(s, case.get("case_mode", 0)) + ("\n" if i % 2 == 0 else "") for i, s in enumerate(plan)]
    info = {"domain": sexpr.flat(pddl.domain_tree(dom)), "init": case["init"], "plan": plan, "allow": allow}
    apps = [r["applicable"] for r in ref if r["applicable"] is not None]
    res.nontrivial = len(plan) >= 3 and True in apps and False in apps
    res.classes = [f"len{min(len(plan), 8)}", "allow" if allow else "strict"]
    res.key = json.dumps([dom, case["init"], plan, allow], sort_keys=True)

    # the exporter object is used for another problem of the same domain first (more objects, same plan
    # lines): a trajectory is a function of (domain, problem, plan), not of what the exporter did before
    warm = None
    if case.get("warm", True):
        extra = [[f"x{i}", t] for i, (t, _) in enumerate(dom["types"][:3])] if dom.get("typed", True) else [["x0", "object"]]
        okw, warm = lib_call(parse_problem_text, problem_text(dom, objects + extra, init, name="other"), domain)
        if not okw:
            warm = None

    def run():
        exporter = TrajectoryExporter(domain, allow_invalid_actions=allow)
        if warm is not None:
            try:
                exporter.parse_plan(warm, action_sequence=list(lines))
            except Exception:  # noqa: whatever the warm-up does is not under test
                pass
        if case.get("via_file"):
            # the other entry point: the plan read from a file, one call per line, in a legal layout of its own
            # (indentation, trailing blanks, CRLF) - no blank lines: the reader does not accept them
            fl = case["via_file"]
            path = write_tmp("".join([" ", "", "\t", "   "][(fl + i) % 4] + PC.call_text(s, case.get("case_mode", 0)) +
                                     ["", " ", "", "\t"][(fl + 2 * i) % 4] + ("\r\n" if fl % 3 == 0 else "\n")
                                     for i, s in enumerate(plan)), suffix=".plan", newline="")
            triplets = exporter.parse_plan(problem, plan_path=path)
        else:
            triplets = exporter.parse_plan(problem, action_sequence=list(lines))
        out = []
        for t in triplets:
            out.append((read_lib_state(t.previous_state), str(t.operator), read_lib_state(t.next_state)))
        text = "".join(exporter.export(triplets)) if triplets else None
        return out, text
    okr, got = lib_call(run)
    if not okr:
        # an exception is acceptable only if it stems from a step whose outcome is undefined
        if any(r["why"] in ("Undefined", "Conflict", "Magnitude", "Ambiguous") for r in ref) or (allow and any(r["applicable"] is False for r in ref)):
            res.skipped = "undefined-step-raised"
            return res
        res.bad(f"C04/parse_plan/exception:{got.key}", {**info, "error": repr(got)})
        return res
    trip, text = got
    if len(trip) != len(plan):
        res.bad("C04/length", {**info, "triplets": len(trip)})
        return res
    known_k3 = False
    trusted = True      # reference still predicts the state
    for i, (r, (pre, op, post)) in enumerate(zip(ref, trip)):
        try:
            optree = sexpr.read(op)
        except sexpr.Reject:
            optree = None
        if optree != [x.lower() for x in plan[i]]:
            res.bad("C04/operator-text", {**info, "step": i, "operator": op})
            break
        if i == 0 and not pddl.states_equal(init, pre):
            res.bad("C04/first-pre-state", {**info, "diff": pddl.state_diff(init, pre)})
            break
        if i > 0 and not pddl.states_equal(trip[i - 1][2], pre):
            res.bad("C04/chain", {**info, "step": i, "diff": pddl.state_diff(trip[i - 1][2], pre)})
            break
        if not trusted or r["why"] in ("after-undefined", "Undefined", "Ambiguous", "Conflict", "Magnitude"):
            trusted = False
            continue
        if not pddl.states_equal(r["pre"], pre):
            trusted = False     # diverged earlier through an excused step
            continue
        if r["applicable"]:
            exp = r["post"]
            if pddl.states_equal(exp, post):
                continue
            if r.get("post_model") is not None and pddl.states_equal(r["post_model"], post):
                known_k3 = True
                continue
            res.bad("C04/successor", {**info, "step": i, "diff": pddl.state_diff(exp, post)})
            break
        # reference: inapplicable
        if allow:
            trusted = False     # PDDL defines no successor; only chaining is checked from here on
            continue
        if pddl.states_equal(r["pre"], post):
            continue
        if r["lib_applicable"] and (pddl.states_equal(r["post"], post) or
                                    (r.get("post_model") is not None and pddl.states_equal(r["post_model"], post))):
            known_k3 = True
            continue
        res.bad("C04/refused-step-changed-state", {**info, "step": i, "diff": pddl.state_diff(r["pre"], post)})
        break
    if known_k3:
        res.known.append(S.F_NESTED)
    # exported text
    if text is not None and not res.disc:
        try:
            tree = sexpr.read(text)
            states = [read_state_tree(tree[0])] + [read_state_tree(x) for x in tree[2::2]]
            ops = tree[1::2]
            okt = len(ops) == len(plan) and tree[0][0] == ":init" and all(o[0] == "operator:" and o[1] == [x.lower() for x in plan[i]] for i, o in enumerate(ops))
            okt = okt and pddl.states_equal(states[0], trip[0][0]) and all(pddl.states_equal(states[i + 1], trip[i][2]) for i in range(len(trip)))
        except (sexpr.Reject, BadState, IndexError, TypeError):
            okt = False
        if not okt:
            res.bad("C04/exported-text", {**info, "text": text[:1500]})
    # direct application of the first inapplicable step must raise
    if not res.disc:
        objs = lib_objects(domain, build_objects(domain, objects))
        for i, r in enumerate(ref):
            if r["applicable"] is False and r["why"] is None:
                state = build_state(domain, world, r["pre"])
                a = plan[i]
                okd, out = lib_call(lambda: Operator(domain.actions[a[0]], domain, list(a[1:]), objs).apply(state))
                if okd:
                    if r["lib_applicable"]:
                        res.known.append(S.F_NESTED)
                    else:
                        res.bad("C04/direct-apply-of-inapplicable-did-not-raise", {**info, "step": i})
                break
    # the same plan executed by hand, one Operator object per distinct plan line (re-used whenever the line comes
    # again): every successor is the reference's, every inapplicable step raises and leaves the state as it was
    if not res.disc and not known_k3:
        objs = lib_objects(domain, build_objects(domain, objects))
        cache = {}
        oks, state = lib_call(build_state, domain, world, init)
        for i, r in enumerate(ref):
            if not oks or r["why"] is not None or r.get("post_model") is not None or bool(r["lib_applicable"]) != bool(r["applicable"]):
                break
            a = plan[i]
            if tuple(a) not in cache:
                oko, o = lib_call(lambda: Operator(domain.actions[a[0]], domain, list(a[1:]), objs))
                if not oko:
                    break
                cache[tuple(a)] = o
            else:
                res.classes.append("manual-operator-reused")
            okd, out = lib_call(cache[tuple(a)].apply, state)
            if r["applicable"]:
                if not okd:
                    res.bad(f"C04/by-hand/exception:{out.key}", {**info, "step": i, "error": repr(out)})
                    break
                try:
                    got_post = read_lib_state(out)
                except BadState as e:
                    res.bad("C04/by-hand/unreadable-state", {**info, "step": i, "error": repr(e)})
                    break
                if not pddl.states_equal(r["post"], got_post):
                    res.bad("C04/by-hand/successor", {**info, "step": i, "reused": len(cache) <= i, "diff": pddl.state_diff(r["post"], got_post)})
                    break
                state = out
            else:
                if okd:
                    res.bad("C04/by-hand/inapplicable-did-not-raise", {**info, "step": i})
                    break
                if not pddl.states_equal(r["pre"], read_lib_state(state)):
                    res.bad("C04/by-hand/refused-step-changed-state", {**info, "step": i})
                    break
    res.evals = len(plan)
    return res


# ---- the planner plans shipped with the repository ---------------------------------------------------------
SHIPPED = [("tests/exporters_tests/elevators_domain.pddl", "tests/exporters_tests/elevators_p03.pddl", "tests/exporters_tests/elevators_p03_plan.solution"),
           ("tests/exporters_tests/depot_numeric.pddl", "tests/exporters_tests/pfile2.pddl", "tests/exporters_tests/depot_numeric.solution"),
           ("tests/exporters_tests/depot_numeric.pddl", "tests/exporters_tests/pfile2.pddl", "tests/exporters_tests/depot_numeric_faulty.solution"),
           ("tests/exporters_tests/domain_spider.pddl", "tests/exporters_tests/pfile01_spider.pddl", "tests/exporters_tests/pfile01_spider.solution"),
           ("tests/exporters_tests/minecraft_domain.pddl", "tests/exporters_tests/minecraft_problem.pddl", "tests/exporters_tests/minecraft_pfile0.solution"),
           ("tests/exporters_tests/domain_miconic.pddl", "tests/exporters_tests/miconic_problem.pddl", "tests/exporters_tests/miconic_solution.solution")]


def check_file(case, res):
    """Differential replay of a shipped (domain, problem, plan) triple: reference parser + reference
    interpreter versus DomainParser + ProblemParser + TrajectoryExporter."""
    import os
    from pathlib import Path
    from pddl_plus_parser.exporters import TrajectoryExporter
    from pddl_plus_parser.lisp_parsers import DomainParser, ProblemParser
    from pv.ref import parse as rparse
    repo = os.environ.get("PV_REPO", "/repo")
    dpath, ppath, plpath = (os.path.join(repo, x) for x in (case["domain_file"], case["problem_file"], case["plan_file"]))
    res.classes = ["shipped-plan"]
    res.key = case["plan_file"]
    try:
        dom = rparse.parse_domain(open(dpath).read())
        prob = rparse.parse_problem(open(ppath).read(), dom)
        plan = rparse.read_plan(open(plpath).read())
        world = pddl.World(dom, prob["objects"])
    except (rparse.Unsupported, sexpr.Reject, OSError, KeyError, IndexError) as e:
        res.skipped = f"reference-parser-unsupported:{type(e).__name__}"
        return res
    for allow in (False, True):
        okl, out = lib_call(lambda: [(read_lib_state(t.previous_state), str(t.operator), read_lib_state(t.next_state)) for t in
                                     TrajectoryExporter(DomainParser(Path(dpath)).parse_domain(), allow_invalid_actions=allow).parse_plan(
                                         ProblemParser(Path(ppath), DomainParser(Path(dpath)).parse_domain()).parse_problem(), plan_path=Path(plpath))])
        if not okl:
            res.skipped = f"library-raised:{out.key}"
            return res
        try:
            ref = PC.reference_run(dom, world, prob["state"], plan, ctx.active(S.F_NESTED))
        except Exception as e:   # construct outside the reference interpreter
            res.skipped = f"reference-interpreter-unsupported:{type(e).__name__}"
            return res
        info = {**case, "allow": allow}
        if len(out) != len(plan):
            res.bad("C04/file/length", {**info, "triplets": len(out), "plan_lines": len(plan)})
            return res
        trusted = True
        n_checked = 0
        for i, (r, (pre, op, post)) in enumerate(zip(ref, out)):
            if i > 0 and not pddl.states_equal(out[i - 1][2], pre):
                res.bad("C04/file/chain", {**info, "step": i})
                return res
            if not trusted or r["why"] is not None or r["applicable"] is None:
                trusted = False
                continue
            if not pddl.states_equal(r["pre"], pre):
                res.bad("C04/file/pre-state", {**info, "step": i, "diff": pddl.state_diff(r["pre"], pre)})
                return res
            if r["applicable"]:
                if not pddl.states_equal(r["post"], post):
                    res.bad("C04/file/successor", {**info, "step": i, "action": plan[i], "diff": pddl.state_diff(r["post"], post)})
                    return res
            elif allow:
                trusted = False
            elif not pddl.states_equal(r["pre"], post):
                res.bad("C04/file/refused-step-changed-state", {**info, "step": i, "action": plan[i]})
                return res
            n_checked += 1
        res.evals += n_checked
        res.nontrivial = res.nontrivial or n_checked >= 3
    return res


def chunk_cases(tier, chunk):
    for i, (d, p, pl) in enumerate(SHIPPED):
        if i % chunk[1] == chunk[0]:
            yield {"kind": "file", "domain_file": d, "problem_file": p, "plan_file": pl}


def gen(ch, tier):
    case = PC.gen_plan_case(ch, tier, max_len=8 if tier == "quick" else 25)
    case["allow"] = ch.flag(0.3)
    if ch.flag(0.4):
        case["via_file"] = ch.int(1, 12)
    return case


def plan(tier):
    if tier == "quick":
        return {"exhaustive": [(i, 6) for i in range(6)], "streams": {"main": 9600}, "shards": 16, "exhaustive_is_complete": True,
                "exhaustive_note": "the 6 (domain, problem, plan) triples shipped under tests/exporters_tests, replayed against the reference parser + interpreter"}
    return {"exhaustive": [(i, 6) for i in range(6)], "streams": {"main": 40000}, "shards": 16, "exhaustive_is_complete": True,
            "exhaustive_note": "the 6 shipped (domain, problem, plan) triples"}
