"""C16 - a joint action acts like its members applied one after another, in any order.

Oracle: the reference interpreter.  For joint actions whose members are all applicable and do not
interfere (every order of the members is executable step by step from the state and all orders reach
the same state) apply_actions on every permutation of the members must return that state; nops change
nothing; an inapplicable member makes the joint action fail unless inapplicable actions are allowed;
MultiAgentTrajectoryExporter gives one chained step per joint action whose exported text reads back to
the same states (and parses back through TrajectoryParser with executing_agents)."""
import itertools
import json

from pv import ctx
from pv.gen import domains as G
from pv.harness import (build_state, parse_domain, problem_text, read_lib_state, read_state_tree, unjstate, jstate, BadState)
from pv.lib import lib_call, parse_problem_text, write_tmp
from pv.props import sem_common as S
from pv.ref import pddl, sexpr
from pv.runner import Res

ID = "C16"
RULE = ("generated multi-agent domains (type agent, 1-4 agents with prefix-related names, every action's first parameter "
        "is its agent or - 12 % - the action has no parameter; literals, numeric effects, when and forall-when effects) "
        "x states x joint actions of 0-4 members with nop padding at every position (4 % all-nop); every permutation of "
        "the members; through apply_actions and through MultiAgentTrajectoryExporter (one or two steps, the second "
        "possibly all-nop or inapplicable; a strict call after a lenient one on the same exporter) and back through "
        "TrajectoryParser.  Interfering-but-applicable joint actions are "
        "outside the property and counted.  Non-trivial = >= 2 non-nop members (>= 2 distinct permutations).  "
        "Distinct by (domain, state, joint action).")
ASSUMPTIONS = ["non-interference is decided semantically by the reference: all orders executable and confluent",
               "apply_actions is given the non-nop members, as MultiAgentTrajectoryExporter calls it"]

F_D16 = "D16-joint-forall-skipped"


def ma_feats(**kw):
    base = dict(agent_first=True, typed=True, typed_fixed=True, max_actions=3, max_leaves=2, nested=False, forall_pre=False,
                p_when=0.3, p_forall_eff=0.15, constants=True, division=False)
    base.update(kw)
    return G.feats(**base)


def fix_constants(dom):
    dom["constants"] = [[n, ("object" if t == "agent" else t)] for n, t in dom["constants"]]


def sequential(dom, world, members, st):
    for m in members:
        if not pddl.applicable(dom, world, m, st):
            return None
        st = pddl.apply(dom, world, m, st)
    return st


def classify(dom, world, members, st):
    """-> ('inapplicable', None) | ('interfering', None) | ('ok', state) | ('undefined', None)"""
    try:
        if not all(pddl.applicable(dom, world, m, st) for m in members):
            return "inapplicable", None
        results = []
        for perm in itertools.permutations(members):
            r = sequential(dom, world, list(perm), st)
            if r is None:
                return "interfering", None
            results.append(r)
        if any(not pddl.states_equal(results[0], r) for r in results[1:]):
            return "interfering", None
        # simultaneous semantics must agree with the sequential one: effects evaluated in the pre-state
        return "ok", results[0]
    except (pddl.Undefined, pddl.Ambiguous, pddl.Conflict):
        return "undefined", None


def check_case(case):
    from pddl_plus_parser.models import ActionCall
    from pddl_plus_parser.multi_agent.common import apply_actions
    res = Res()
    dom, objects = case["dom"], case["objects"]
    pddl.validate_domain(dom, objects)
    world = pddl.validate_probes(dom, objects, [{"action": m[0], "args": m[1:], "state": case["state"]} for m in case["slots"] if m[0] != "nop"])
    agents = [o for o, t in objects if t == "agent"]
    slots = case["slots"]
    if len(slots) != len(agents):
        raise pddl.Invalid("one slot per agent")
    for ag, m in zip(agents, slots):
        if m[0] != "nop" and len(m) >= 2 and m[1] != ag:
            raise pddl.Invalid("slot i holds an action of agent i (or a parameterless action)")
    members = [m for m in slots if m[0] != "nop"]
    # (no member at all - every agent idles - is a joint action too: the state must come back unchanged)
    st = unjstate(case["state"])
    ok, domain = parse_domain(dom)
    if not ok:
        res.skipped = "domain-parse-error(C01)"
        return res
    from pv.harness import build_objects, lib_objects
    objs = lib_objects(domain, build_objects(domain, objects))
    kind, exp = classify(dom, world, members, st)
    if exp is not None and pddl.beyond_float(exp):
        res.skipped = "magnitude-beyond-float-precision"
        return res
    has_forall = any("forall" in pddl.heads(pddl.find_action(dom, m[0])["eff"]) for m in members)
    res.classes = [kind + f":{len(members)}"]
    res.nontrivial = len(members) >= 2 and kind in ("ok", "inapplicable")
    res.key = json.dumps([dom, case["state"], slots], sort_keys=True)
    info = {"domain": sexpr.flat(pddl.domain_tree(dom)), "state": case["state"], "joint_action": slots}
    if kind in ("interfering", "undefined"):
        res.skipped = kind
        return res
    n = 0
    for perm in itertools.permutations(members):
        calls = [ActionCall(m[0], list(m[1:])) for m in perm]
        n += 1
        for allow in ((False, True) if kind == "inapplicable" else (False,)):
            okr, got = lib_call(lambda: read_lib_state(apply_actions(domain, build_state(domain, world, st), calls,
                                                                    allow_inapplicable_actions=allow, problem_objects=objs)))
            if kind == "inapplicable":
                if not allow and okr:
                    res.bad("C16/inapplicable-member-not-refused", {**info, "order": [list(m) for m in perm]})
                    return res
                if allow and not okr and got.type == "ValueError":
                    res.bad("C16/allowed-inapplicable-still-refused", {**info, "order": [list(m) for m in perm], "error": repr(got)})
                    return res
                continue
            if not okr:
                res.bad(f"C16/apply_actions/exception:{got.key}", {**info, "order": [list(m) for m in perm], "error": repr(got)})
                return res
            if not pddl.states_equal(exp, got):
                if has_forall and ctx.active(F_D16):
                    res.known.append(F_D16)
                    continue
                res.bad("C16/joint-state-differs-from-sequential", {**info, "order": [list(m) for m in perm], "diff": pddl.state_diff(exp, got)})
                return res
    res.evals = n
    if kind == "ok" and not (has_forall and ctx.active(F_D16)):
        # apply_actions also takes the joint action as written, nop entries included (it skips them itself)
        padded = [ActionCall(m[0], list(m[1:])) for m in slots]
        okr, got = lib_call(lambda: read_lib_state(apply_actions(domain, build_state(domain, world, st), padded, problem_objects=objs)))
        if not okr:
            res.bad(f"C16/apply_actions-with-nop-entries/exception:{got.key}", {**info, "error": repr(got)})
            return res
        if not pddl.states_equal(exp, got):
            res.bad("C16/apply_actions-with-nop-entries/state-differs", {**info, "diff": pddl.state_diff(exp, got)})
            return res
    if kind != "ok" or (has_forall and ctx.active(F_D16)):
        return res
    # the exporter: one chained step per joint action, nops anywhere, text reads back
    from pddl_plus_parser.multi_agent import MultiAgentTrajectoryExporter
    from pddl_plus_parser.lisp_parsers import TrajectoryParser
    okp, problem = lib_call(parse_problem_text, problem_text(dom, objects, st), domain)
    if not okp:
        return res
    # entries separated by a comma, a comma and a blank, or blanks only (the exporter's own (operators: ...) spelling)
    sep = case.get("line_sep", ",")
    if sep not in (",", ", ", " ", "  "):
        raise pddl.Invalid("separator")
    line = "[" + sep.join("(" + " ".join(m) + (" " if len(m) == 1 else "") + ")" for m in slots) + "]"
    second = case.get("second")
    lines = [line] + ([("[" + sep.join("(" + " ".join(m) + (" " if len(m) == 1 else "") + ")" for m in second) + "]")] if second else [])

    def run():
        ex = MultiAgentTrajectoryExporter(domain)
        vf = case.get("via_file")
        if vf:
            # the other entry point: the joint plan read from a file, one joint action per line; the entries of a line
            # enclosed in [...] (as PlanConverter.export_plan writes them) or bare, the last line with or without a
            # terminator
            body = [l[1:-1] if vf.get("bare") else l for l in lines]
            path = write_tmp("\n".join(body) + ("\n" if vf.get("final_newline") else ""), suffix=".plan")
            tr = ex.parse_plan(problem, plan_path=path, allow_inapplicable_actions=bool(second))
        else:
            tr = ex.parse_plan(problem, action_sequence=lines, allow_inapplicable_actions=bool(second))
        text = "".join(ex.export(tr))
        path = write_tmp("", suffix=".trajectory")
        ex.export_to_file(tr, path)
        obs = TrajectoryParser(domain, problem).parse_trajectory(path, executing_agents=agents)
        return [(read_lib_state(t.previous_state), [str(o) for o in t.joint_action], read_lib_state(t.next_state)) for t in tr], text, obs, tr
    okx, out = lib_call(run)
    if not okx:
        res.bad(f"C16/exporter/exception:{out.key}", {**info, "error": repr(out)})
        return res
    trip, text, obs, raw = out
    if second and any(m[0] != "nop" for m in second):
        kind2, _ = classify(dom, world, [m for m in second if m[0] != "nop"], exp)
        if kind2 == "inapplicable":
            # the permission is an argument of the call, not a state of the exporter: a strict call on an exporter
            # that served a lenient call before must still refuse the inapplicable member
            def strict_after_lenient():
                ex = MultiAgentTrajectoryExporter(domain)
                ex.parse_plan(problem, action_sequence=list(lines), allow_inapplicable_actions=True)
                ex.parse_plan(problem, action_sequence=list(lines), allow_inapplicable_actions=False)
            oks, err = lib_call(strict_after_lenient)
            if oks:
                res.bad("C16/exporter/strict-call-after-lenient-call-not-refused", info)
                return res
    if len(trip) != len(lines):
        res.bad("C16/exporter/steps", {**info, "steps": len(trip)})
        return res
    if not pddl.states_equal(trip[0][0], st) or not pddl.states_equal(trip[0][2], exp):
        res.bad("C16/exporter/first-step-states", {**info, "diff": pddl.state_diff(exp, trip[0][2])})
        return res
    if len(trip) > 1 and not pddl.states_equal(trip[1][0], trip[0][2]):
        res.bad("C16/exporter/chain", info)
        return res
    if len(trip) > 1 and all(m[0] == "nop" for m in second) and not pddl.states_equal(trip[1][2], trip[1][0]):
        res.bad("C16/exporter/all-nop-step-changed-the-state", {**info, "diff": pddl.state_diff(trip[1][0], trip[1][2])})
        return res
    try:
        tree = sexpr.read(text)
        states = [read_state_tree(tree[0])] + [read_state_tree(x) for x in tree[2::2]]
        ops = tree[1::2]
        okt = len(ops) == len(lines) and all(o[0] == "operators:" for o in ops)
        okt = okt and [list(x) for x in ops[0][1:]] == [[t.lower() for t in m] for m in slots]
        okt = okt and pddl.states_equal(states[0], trip[0][0]) and all(pddl.states_equal(states[i + 1], trip[i][2]) for i in range(len(trip)))
    except (sexpr.Reject, BadState, IndexError, TypeError):
        okt = False
    if not okt:
        res.bad("C16/exporter/text", {**info, "text": text[:1500]})
        return res
    comps = obs.components
    if len(comps) != len(lines):
        res.bad("C16/parser/components", {**info, "components": len(comps)})
        return res
    got_calls = [[a.name] + list(a.parameters) for a in comps[0].grounded_joint_action.actions]
    if got_calls != [[t.lower() for t in m] if m[0] != "nop" else ["nop"] for m in slots]:
        res.bad("C16/parser/joint-action", {**info, "got": got_calls})
    if not (comps[0].previous_state == raw[0].previous_state) or not (comps[0].next_state == raw[0].next_state):
        res.bad("C16/parser/state-equality", info)
    if len(comps) > 1 and not (comps[1].previous_state == comps[0].next_state):
        res.bad("C16/parser/chain", info)
    return res


def gen_joint(ch, dom, objects, world, st, prefer_applicable=True):
    agents = [o for o, t in objects if t == "agent"]
    slots = []
    for ag in agents:
        if ch.flag(0.3):
            slots.append(["nop"])
            continue
        cands = []
        for a in dom["actions"]:
            for call in world.calls(a):
                if (call and call[0] == ag) or not a["params"]:
                    cands.append([a["name"]] + list(call))
        if not cands:
            slots.append(["nop"])
            continue
        pick = None
        if prefer_applicable and ch.flag(0.8):
            ok = []
            for c in ch.sample(cands, min(len(cands), 10)):
                try:
                    if pddl.applicable(dom, world, c, st):
                        ok.append(c)
                except (pddl.Undefined, pddl.Ambiguous):
                    pass
            if ok:
                pick = ch.choice(ok)
        slots.append(pick or ch.choice(cands))
    if all(s[0] == "nop" for s in slots):
        for i, ag in enumerate(agents):
            cands = [[a["name"]] + list(call) for a in dom["actions"] for call in world.calls(a) if (call and call[0] == ag) or not a["params"]]
            if cands:
                slots[i] = ch.choice(cands)
                break
    return slots


def gen(ch, tier):
    dom, objects = G.gen_domain(ch, ma_feats(min_agents=1, p_zero_param=0.12))
    world = pddl.World(dom, objects)
    st = G.gen_state(ch, world, density=ch.choice([0.5, 0.8]))
    slots = gen_joint(ch, dom, objects, world, st)
    if ch.flag(0.04):
        slots = [["nop"] for _ in slots]          # the first step already has every agent idling
    case = {"dom": dom, "objects": objects, "state": jstate(st), "slots": slots,
            "line_sep": ch.weighted([(5, ","), (2, ", "), (2, " "), (1, "  ")])}
    if ch.flag(0.3):
        case["second"] = gen_joint(ch, dom, objects, world, st, prefer_applicable=False)
        if ch.flag(0.25):
            case["second"] = [["nop"] for _ in case["second"]]      # every agent idles for a step
    side = ch.side("via-file")
    if side.flag(0.4):
        case["via_file"] = {"bare": side.flag(0.5), "final_newline": side.flag(0.5)}
    return case


def plan(tier):
    if tier == "quick":
        return {"streams": {"main": 8000}, "shards": 16}
    return {"streams": {"main": 40000}, "shards": 16}
