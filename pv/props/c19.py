"""C19 - planner logs yield exactly the plan's steps, in order.

Oracle: the generated plan.  Logs are assembled from a grammar modelled on the shipped Metric-FF
output (header lines, 'ff: found legal plan as follows', 'step %4d: NAME ARGS' + continuation lines
with varied indentation and number width, trailers) and the ENHSP one-action-per-line layout."""
import json
import os

from pv.lib import lib_call, write_tmp, tmpdir
from pv.ref import sexpr
from pv.runner import Res

ID = "C19"
HYPOTHESIS_DIRECT = False
CONFIGS = {"default": {}, "debug-logging": {"PV_LOGGING": "debug"}}
RULE = ("plans of 0-150 steps (and, 1 in 19, of 151-1200 / 5000 steps: texts beyond the usual buffer sizes) over names with letters, digits, '-' and '_', rendered as Metric-FF logs (real FF header "
        "lines, varied indentation / step-number width, trailers: blank lines, 'plan cost: ..', 'time spent: ..', "
        "word-only lines; LF and CRLF) and as ENHSP plans (one '(name args)' per line, mixed case); logs without a plan "
        "carrying one of the three no-solution markers or none; the text sits in a fresh file or (40 %) in a file name at "
        "which another plan was parsed just before; every case under two configurations (logging disabled / every logger "
        "enabled at DEBUG).  Non-trivial = >= 11 steps (two number widths) or a "
        "trailer line made only of word characters directly after the plan.  Distinct by log text.")
ASSUMPTIONS = ["noise lines never contain a digit immediately followed by ': ' (such a line is syntactically a plan step)",
               "action and argument names start with a letter"]

HEADERS = ["", "ff: parsing domain file", "domain 'DEPOT' defined", " ... done.", "ff: parsing problem file",
           "problem 'DEPOTPROB7512' defined", "warning: numeric precondition. turning cost-minimizing relaxed plans OFF.",
           "ff: search configuration is Enforced Hill-Climbing, then A*epsilon with weight 5.",
           "Metric is ((1.00*[RF0](FUEL-COST)) - () + 0.00)", "COST MINIMIZATION DONE (WITHOUT cost-minimizing relaxed plans).",
           "Cueing down from goal distance:   18 into depth [1][2]", "                                  16            [1][2]",
           "                                   0            ", "advancing to distance:    4", "search space empty",
           "Enforced Hill-climbing failed !", "switching to Best-first Search now.", "key: value", "seed 1234 restarts 3"]
TRAILERS = ["", "plan cost: 54.000000", "time spent:    0.00 seconds instantiating 666 easy, 0 hard action templates",
            "               0.00 seconds reachability analysis, yielding 82 facts and 210 actions",
            "               0.00 seconds total time", "plan cost 54", "done", "finished ok", "plan length 19",
            "solution found", "search finished after 12 nodes", "   total 3"]
NO_SOLUTION = ["problem proven unsolvable.", "ff: goal can be simplified to FALSE. No plan will solve it",
               "all increasers applied yet goal not fulfilled"]
ALNUM = "abcdefghijklmnopqrstuvwxyz0123456789"


def render_ff(case):
    eol = case["eol"]
    lines = list(case["header"])
    if case["status"] == "plan":
        lines.append("ff: found legal plan as follows")
        for i, step in enumerate(case["plan"]):
            sep = case.get("tok_sep", " ")      # blanks or tabs between the name and the arguments (the step pattern takes both)
            text = sep.join(step).upper() if case.get("upper", True) else sep.join(step)
            num = str(i).rjust(case["width"])
            # blanks before the line end on some step lines (planner output padded to a column)
            tail = case.get("step_tail", "") if (i + case.get("tail_phase", 0)) % 2 == 0 else ""
            if i == 0:
                lines.append(f"step {num}: {text}{tail}")
            else:
                lines.append(" " * case["indent"] + f"{num}: {text}{tail}")
        if not case["plan"]:
            lines.append("step")
    elif case["status"] != "none":
        lines.append(case["status"])
    lines += list(case["trailer"])
    return eol.join(lines) + eol


def render_enhsp(case):
    out = []
    for i, step in enumerate(case["plan"]):
        toks = [t.upper() if (i + j) % 2 == case.get("phase", 0) else t for j, t in enumerate(step)]
        out.append("(" + " ".join(toks) + ")")
    return case["eol"].join(out) + (case["eol"] if out else "")


def validate(case):
    from pv.ref.pddl import Invalid
    for step in case["plan"]:
        if not step or any(not t or not t[0].isalpha() or any(c not in ALNUM + "-_" for c in t.lower()) for t in step):
            raise Invalid("names")
    if case["format"] == "ff":
        if case.get("tok_sep", " ") not in (" ", "\t", "  ", " \t"):
            raise Invalid("token separator")
        for l in list(case["header"]) + list(case["trailer"]):
            for i, c in enumerate(l):
                if c.isdigit() and l[i + 1:i + 3] == ": ":
                    raise Invalid("noise line looks like a plan step")
            if "ff: found legal plan" in l or any(m in l for m in NO_SOLUTION):
                raise Invalid("noise line carries a status marker")
        if case["status"] not in ["plan", "none"] + NO_SOLUTION:
            raise Invalid("status")
        if case["eol"] not in ("\n", "\r\n") or not (1 <= case["width"] <= 6) or not (0 <= case["indent"] <= 12):
            raise Invalid("layout")
    elif case["format"] != "enhsp" or case["eol"] not in ("\n", "\r\n"):
        raise Invalid("format")


def read_lines(lines):
    out = []
    for l in lines:
        try:
            out.append(sexpr.read(l, lower=False))    # case-preserving: the output must already be lower case
        except sexpr.Reject:
            out.append(("UNREADABLE", l))
    return out


def check_case(case):
    from pathlib import Path
    res = Res()
    validate(case)
    exp = [[t.lower() for t in step] for step in case["plan"]]
    if case["format"] == "enhsp":
        from pddl_plus_parser.exporters import ENHSPParser
        text = render_enhsp(case)
        if case.get("reuse_path"):
            # planners write every plan to the same file name: parse a different plan at this path first
            p = tmpdir() / "solver_plan.sol"
            with open(p, "w", newline="") as fh:
                fh.write("(decoy-first x)\n(decoy-second y z)\n")
            lib_call(ENHSPParser.parse_plan_content, Path(p))
            lib_call(ENHSPParser().parse_plan, Path(p))
            with open(p, "w", newline="") as fh:
                fh.write(text)
        else:
            p = write_tmp(text, suffix=".plan", newline="")
        res.key = "enhsp\x00" + text
        res.nontrivial = len(exp) >= 2
        res.classes = ["enhsp"]
        info = {"text": text[:1500]}
        ok, got = lib_call(ENHSPParser.parse_plan_content, Path(p))
        if not ok:
            res.bad(f"C19/enhsp/exception:{got.key}", {**info, "error": repr(got)})
            return res
        if read_lines(got) != exp:
            res.bad("C19/enhsp/actions", {**info, "expected": exp, "got": got[:20]})
        ok2, err = lib_call(ENHSPParser().parse_plan, Path(p))
        if not ok2:
            res.bad(f"C19/enhsp/rewrite-exception:{err.key}", {**info, "error": repr(err)})
        else:
            back = [l for l in open(p, newline="").read().splitlines() if l.strip()]
            if read_lines(back) != exp:
                res.bad("C19/enhsp/rewritten-file", {**info, "expected": exp, "got": back[:20]})
        return res
    from pddl_plus_parser.exporters import MetricFFParser
    text = render_ff(case)
    if case.get("reuse_path"):
        p = tmpdir() / "solver_log.out"
        with open(p, "w", newline="") as fh:
            fh.write("ff: found legal plan as follows\n\nstep    0: DECOY-FIRST X\n        1: DECOY-SECOND Y Z\n\ntime spent:    0.00 seconds total time\n")
        lib_call(MetricFFParser().get_solving_status, Path(p))
        lib_call(MetricFFParser().parse_plan, Path(p), tmpdir() / "solver_log.out.plan")
        with open(p, "w", newline="") as fh:
            fh.write(text)
    else:
        p = write_tmp(text, suffix=".out", newline="")
    has_plan = case["status"] == "plan"
    word_trailer = has_plan and bool(case["trailer"]) and bool(case["trailer"][0].strip()) and \
        all(c.isalnum() or c in " _-" for c in case["trailer"][0])
    res.key = "ff\x00" + text
    res.nontrivial = (has_plan and len(exp) >= 11) or word_trailer
    res.classes = ["ff:" + ("plan" if has_plan else "no-plan") + (":word-trailer" if word_trailer else "") +
                   (":crlf" if case["eol"] == "\r\n" else "")]
    info = {"text": text[-1500:], "steps": len(exp)}
    parser = MetricFFParser()
    earlier = None
    if case.get("reuse_parser"):
        # the same parser object read another log before: what it returned then stays what it was
        pd = write_tmp("ff: found legal plan as follows\n\nstep    0: EARLIER-FIRST X\n        1: EARLIER-SECOND Y Z\n\ntime spent:    0.00 seconds total time\n",
                       suffix=".out", newline="")
        oke, earlier = lib_call(parser.get_solving_status, Path(pd))
        if not oke:
            earlier = None
    ok, got = lib_call(parser.get_solving_status, Path(p))
    if not ok:
        res.bad(f"C19/ff/exception:{got.key}", {**info, "error": repr(got)})
        return res
    if earlier is not None and (earlier[0] != "ok" or read_lines(earlier[1]) != [["earlier-first", "x"], ["earlier-second", "y", "z"]]):
        res.bad("C19/ff/earlier-result-changed-by-a-later-call", {**info, "earlier": [earlier[0], list(earlier[1])[:4]]})
    status, actions = got
    if has_plan:
        want = "ok"
        if status != want:
            res.bad("C19/ff/status", {**info, "expected": want, "got": status})
        elif read_lines(actions) != exp:
            got_r = read_lines(actions)
            kind = "count" if len(got_r) != len(exp) else "content"
            first = next((i for i, (a, b) in enumerate(zip(got_r, exp)) if a != b), min(len(got_r), len(exp)))
            res.bad(f"C19/ff/actions-{kind}", {**info, "first_difference_at": first, "expected": exp[first:first + 2],
                                               "got": actions[first:first + 2]})
    else:
        want = "no-solution" if case["status"] in NO_SOLUTION else "timeout"
        if status != want or actions:
            res.bad("C19/ff/no-plan-status", {**info, "expected": want, "got": status, "actions": actions[:3]})
    out = tmpdir() / (os.path.basename(str(p)) + ".plan")
    if out.exists():
        out.unlink()
    okw, err = lib_call(MetricFFParser().parse_plan, Path(p), out)
    if not okw:
        res.bad(f"C19/ff/parse_plan-exception:{err.key}", {**info, "error": repr(err)})
    else:
        written = [l for l in open(out).read().splitlines() if l.strip()] if out.exists() else []
        want_lines = exp if has_plan else None
        if has_plan and read_lines(written) != exp:
            res.bad("C19/ff/written-plan", {**info, "expected": exp[:3], "written": written[:3], "count": len(written)})
        # a log without a plan but with plan-like noise is excluded by construction; nothing to write then
        if not has_plan and written:
            res.bad("C19/ff/written-plan-without-plan", {**info, "written": written[:3]})
    return res


def gen_name(ch):
    n = ch.int(1, 10)
    s = ch.choice("abcdefghijklmnopqrstuvwxyz")
    for _ in range(n - 1):
        s += ch.choice(ALNUM + "-_" + "abcdefghijkl")
    return s


def gen_plan(ch, maxlen):
    k = ch.weighted([(6, "short"), (6, "mid"), (4, "long"), (2, "empty"), (1, "huge")])
    # "huge": texts beyond the usual I/O buffer sizes (4 KiB, 8 KiB, 64 KiB)
    n = {"short": ch.int(1, 9), "mid": ch.int(10, 30), "long": ch.int(31, 150), "empty": 0,
         "huge": ch.int(151, maxlen)}[k]
    names = [gen_name(ch) for _ in range(ch.int(1, 4))]
    objs = [gen_name(ch) for _ in range(ch.int(1, 6))]
    return [[ch.choice(names)] + [ch.choice(objs) for _ in range(ch.int(0, 4))] for _ in range(n)]


def gen(ch, tier):
    fmt = ch.weighted([(4, "ff"), (1, "enhsp")])
    if fmt == "enhsp":
        return {"format": "enhsp", "plan": gen_plan(ch, 1200 if tier == "quick" else 5000), "eol": ch.choice(["\n", "\n", "\r\n"]), "phase": ch.int(0, 1),
                "reuse_path": ch.flag(0.4)}
    status = ch.weighted([(6, "plan"), (1, "none")] + [(1, m) for m in NO_SOLUTION])
    plan = gen_plan(ch, 1200 if tier == "quick" else 5000) if status == "plan" else []
    width = max(ch.int(1, 5), len(str(max(len(plan) - 1, 0))))
    return {"format": "ff", "plan": plan, "status": status,
            "header": [ch.choice(HEADERS) for _ in range(ch.int(0, 8))],
            "trailer": [ch.choice(TRAILERS) for _ in range(ch.int(0, 5))],
            "width": width, "indent": ch.int(0, 10), "eol": ch.choice(["\n", "\n", "\r\n"]), "upper": ch.flag(0.8),
            "reuse_path": ch.flag(0.4), "tok_sep": ch.weighted([(6, " "), (2, "\t"), (1, "  "), (1, " \t")]),
            **side_features(ch)}


def side_features(ch):
    side = ch.side("ff-extras")
    out = {}
    if side.flag(0.3):
        out["step_tail"] = side.choice([" ", "  ", "\t", " \t "])
        out["tail_phase"] = side.int(0, 1)
    if side.flag(0.3):
        out["reuse_parser"] = True
    return out


def corpus():
    yield "shipped-shape", {"format": "ff", "plan": [["drive", "truck0", "depot0"]] * 12, "status": "plan",
                            "header": HEADERS[:6], "trailer": ["plan cost: 54.000000", "", TRAILERS[2]], "width": 4,
                            "indent": 5, "eol": "\n", "upper": True}
    yield "word-trailer", {"format": "ff", "plan": [["load", "a", "b"], ["move", "c"]], "status": "plan", "header": [],
                           "trailer": ["plan length 2"], "width": 4, "indent": 5, "eol": "\n", "upper": True}
    yield "crlf", {"format": "ff", "plan": [["load", "a", "b"], ["move", "c"]], "status": "plan", "header": ["x"],
                   "trailer": ["", "done"], "width": 4, "indent": 5, "eol": "\r\n", "upper": True}


def plan(tier):
    if tier == "quick":
        return {"streams": {"main": 8000}, "shards": 16}
    return {"streams": {"main": 100000}, "shards": 16}
