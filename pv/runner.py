"""Runner: replays the committed corpus, sweeps the bounded-exhaustive spaces, drives the
Hypothesis shards, buckets discrepancies by root cause, writes replay files and evidence.

usage: python -m pv.runner <Cxx> <quick|thorough> [--replay FILE]
exit 0 = property held on everything explored (KNOWN-FINDING lines possible)
exit 1 = at least one 'VIOLATION property=<id> replay=<path>' line
exit 2 = harness error (never a statement about the property)
"""
import collections
import hashlib
import importlib
import json
import multiprocessing as mp
import os
import sys
import time
import traceback

ROOT = os.path.dirname(os.path.dirname(os.path.abspath(__file__)))
OUT = os.environ.get("PV_OUT_DIR") or ROOT      # evidence/ and replays/ go here (the self-test redirects them)
MAX_ROUNDS = 6
SAMPLES_PER_CLASS = 2
MAX_SAMPLES = 12


class Res:
    """Result of checking one case."""
    __slots__ = ("disc", "nontrivial", "classes", "known", "skipped", "key", "evals", "skips")

    def __init__(self):
        self.disc = []          # [(bucket, detail)]  -- unexplained deviations = violations
        self.nontrivial = False
        self.classes = []       # labels for the class histogram
        self.known = []         # ids of known findings that explained a deviation in this case
        self.skipped = None     # reason string when the case was excluded (counted)
        self.key = None         # canonical string for distinctness (default: the case json)
        self.evals = 1          # library evaluations judged against the oracle in this case
        self.skips = []         # reasons of excluded sub-cases (counted)

    def bad(self, bucket, detail=None):
        self.disc.append((bucket, detail))


class Stats:
    def __init__(self):
        self.evaluations = 0
        self.nontrivial = set()
        self.classes = collections.Counter()
        self.known = collections.Counter()
        self.skipped = collections.Counter()
        self.samples = {}
        self.found = {}          # bucket -> {"case":..., "detail":...}
        self.harness_error = None
        self.extra = collections.Counter()

    def add(self, case, res):
        self.evaluations += 1
        self.extra["oracle_comparisons"] += res.evals
        if res.skipped:
            self.skipped[res.skipped] += 1
        for r in res.skips:
            self.skipped[r] += 1
        for c in res.classes:
            self.classes[c] += 1
        for k in res.known:
            self.known[k] += 1
        if res.nontrivial:
            key = res.key if res.key is not None else json.dumps(case, sort_keys=True, default=str)
            h = int.from_bytes(hashlib.blake2b(key.encode(), digest_size=8).digest(), "big")
            if h not in self.nontrivial:
                self.nontrivial.add(h)
                label = res.classes[0] if res.classes else "case"
                lst = self.samples.setdefault(label, [])
                if len(lst) < SAMPLES_PER_CLASS:
                    lst.append(case)

    def merge(self, other):
        self.evaluations += other.evaluations
        self.nontrivial |= other.nontrivial
        self.classes.update(other.classes)
        self.known.update(other.known)
        self.skipped.update(other.skipped)
        self.extra.update(other.extra)
        for k, v in other.samples.items():
            lst = self.samples.setdefault(k, [])
            for c in v:
                if len(lst) < SAMPLES_PER_CLASS:
                    lst.append(c)
        for b, v in other.found.items():
            cur = self.found.get(b)
            if cur is None or _size(v["case"]) < _size(cur["case"]):
                self.found[b] = v
        if other.harness_error and not self.harness_error:
            self.harness_error = other.harness_error


def _size(case):
    return len(json.dumps(case, default=str))


def load_prop(pid):
    return importlib.import_module(f"pv.props.{pid.lower()}")


def shard_seed(seed, pid, shard):
    h = hashlib.sha256(f"{seed}:{pid}:{shard}".encode()).digest()
    return int.from_bytes(h[:6], "big")


# ---------------------------------------------------------------------------------------------
# workers (top-level for multiprocessing)

def _init_worker(active):
    from pv import ctx
    ctx.ACTIVE = frozenset(active)
    sys.setrecursionlimit(5000)


def safe_check(prop, case):
    """check_case with one library-caused failure mode mapped to a discrepancy: serialized state text
    that the independent reader cannot make sense of (BadState) is the library's output being wrong,
    not a harness problem."""
    from pv.harness import BadState, NonFinite
    # a case is plain data: it is checked in the form a replay file gives it (every string its own object, as
    # names read from separate places of a file are), so generation and replay cannot differ and code comparing
    # names by identity instead of equality is exposed
    try:
        case = json.loads(json.dumps(case))
    except (TypeError, ValueError):
        pass
    try:
        return prop.check_case(case)
    except NonFinite:
        res = Res()
        res.skipped = "float-overflow(inf/nan value)"
        return res
    except BadState as e:
        res = Res()
        res.bad(f"{prop.ID}/state-text-unreadable", {"error": str(e)[:500]})
        return res


def _check(prop, case, stats):
    res = safe_check(prop, case)
    stats.add(case, res)
    return res


def exhaustive_worker(args):
    pid, tier, chunk = args
    prop = load_prop(pid)
    stats = Stats()
    try:
        for case in prop.chunk_cases(tier, chunk):
            res = _check(prop, case, stats)
            for bucket, detail in res.disc:
                cur = stats.found.get(bucket)
                if cur is None or _size(case) < _size(cur["case"]):
                    stats.found[bucket] = {"case": case, "detail": detail}
    except Exception:
        stats.harness_error = traceback.format_exc()
    from pv import lib
    lib.cleanup_tmp()
    return stats


def hypothesis_worker(args):
    """One Hypothesis shard.  The test body never raises on a discrepancy: it records the smallest
    failing case per bucket and keeps generating, so one pass collects every root cause it meets and
    Hypothesis' own shrinker (5-minute cap, flaky on order-dependent defects) is replaced by the
    bounded reducer below."""
    pid, tier, seed, shard, n_examples, deadline_ts, stream = args
    import hypothesis
    from hypothesis import given, settings, strategies as st, HealthCheck, Phase
    from pv.chooser import HChooser, RChooser
    prop = load_prop(pid)
    stats = Stats()
    state = {"stop": False}
    direct = getattr(prop, "HYPOTHESIS_DIRECT", False)
    seed_strategy = st.integers(0, 2 ** 62)

    def make_chooser(data):
        # Default: Hypothesis draws one 62-bit value per case and a deterministic expander turns it
        # into the structured case (uniform choices; see DESIGN 2 "why a seed expander").  Properties
        # with small cases set HYPOTHESIS_DIRECT and draw every choice from Hypothesis.
        if direct:
            return HChooser(data.draw)
        return RChooser(data.draw(seed_strategy))
    gen = getattr(prop, f"gen_{stream}") if stream else prop.gen

    def body(data):
        if deadline_ts and time.time() > deadline_ts:
            state["stop"] = True
        if state["stop"]:
            # out of budget: end this shard (an exception is the only way to leave Hypothesis' loop early; it is
            # re-raised identically when Hypothesis re-runs the example, and swallowed below)
            stats.extra["budget_stop"] = 1
            raise _Abort()
        try:
            case = gen(make_chooser(data), tier)
            res = _check(prop, case, stats)
        except BaseException as e:  # harness bug: stop the shard, report exit 2
            if isinstance(e, (KeyboardInterrupt, SystemExit)) or type(e).__module__.startswith("hypothesis"):
                raise
            stats.harness_error = traceback.format_exc()
            raise _Abort()
        for bucket, detail in res.disc:
            cur = stats.found.get(bucket)
            if cur is None or _size(case) < _size(cur["case"]):
                stats.found[bucket] = {"case": case, "detail": detail}

    test = given(st.data())(body)
    test = hypothesis.seed(shard_seed(seed, pid + (stream or ""), shard))(test)
    test = settings(max_examples=n_examples, database=None, deadline=None, derandomize=False,
                    report_multiple_bugs=False, suppress_health_check=list(HealthCheck),
                    phases=[Phase.generate], print_blob=False)(test)
    try:
        test()
    except Exception:
        if not stats.harness_error and not state["stop"]:
            stats.harness_error = traceback.format_exc()
    from pv import lib
    lib.cleanup_tmp()
    return stats


class _Abort(Exception):
    pass


# ---- bounded reducer (ddmin-style on the JSON case) ---------------------------------------------

def _variants(x):
    """Smaller variants of a JSON value: delete one list element, or hoist a child list."""
    if isinstance(x, dict):
        for k, v in x.items():
            for nv in _variants(v):
                y = dict(x)
                y[k] = nv
                yield y
    elif isinstance(x, list):
        order = sorted(range(len(x)), key=lambda i: -_size(x[i]))
        for i in order:
            yield x[:i] + x[i + 1:]
        for i in order:
            if isinstance(x[i], list) and x[i] and isinstance(x[i][0], str) and x and isinstance(x[0], str):
                yield x[i]
        for i in order:
            for nv in _variants(x[i]):
                yield x[:i] + [nv] + x[i + 1:]


def reduce_worker(args):
    pid, bucket, case, budget, active = args
    _init_worker(active)
    prop = load_prop(pid)
    t_end = time.time() + budget

    def fails(c):
        try:
            r = safe_check(prop, c)
        except Exception:
            return None
        for b, d in r.disc:
            if b == bucket:
                return d
        return None

    cur, detail = case, fails(case)
    if detail is None:
        return bucket, case, None, False   # not reproducible (order/address dependent)
    improved = True
    while improved and time.time() < t_end:
        improved = False
        for cand in _variants(cur):
            if time.time() > t_end:
                break
            d = fails(cand)
            if d is not None:
                cur, detail, improved = cand, d, True
                break
    from pv import lib
    lib.cleanup_tmp()
    return bucket, cur, detail, True


# ---------------------------------------------------------------------------------------------

def write_replay(pid, bucket, case, detail, config=None):
    d = os.path.join(OUT, "replays", pid)
    os.makedirs(d, exist_ok=True)
    h = hashlib.sha1((bucket + json.dumps(case, sort_keys=True, default=str)).encode()).hexdigest()[:12]
    path = os.path.join(d, f"{h}.json")
    with open(path, "w") as fh:
        doc = {"property": pid, "bucket": bucket, "detail": detail, "case": case}
        if config:
            doc["config"] = config      # environment the library must be imported under (see CONFIGS of the property)
        json.dump(doc, fh, indent=1, default=str)
    return os.path.relpath(path, ROOT) if OUT == ROOT else path


def run_replay(pid, path):
    from pv import ctx, findings
    prop = load_prop(pid)
    with open(path) as fh:
        doc = json.load(fh)
    cfg = doc.get("config") if isinstance(doc, dict) else None
    if cfg and os.environ.get("PV_CONFIG") != cfg:
        # configuration-quantified property: replay in an interpreter started with that configuration
        import subprocess
        configs = dict(getattr(prop, "CONFIGS", None) or {}, **(getattr(prop, "CONFIGS_THOROUGH", None) or {}))
        env = dict(os.environ)
        env.update(configs.get(cfg, {}))
        env["PV_CONFIG"] = cfg
        return subprocess.run([sys.executable, "-m", "pv.runner", pid, "quick", "--replay", path], env=env).returncode
    case = doc["case"] if isinstance(doc, dict) and "case" in doc else doc
    ctx.ACTIVE = frozenset(findings.determine_active(pid, prop, quiet=True))
    res = safe_check(prop, case)
    if res.disc:
        for bucket, detail in res.disc:
            print(f"  bucket={bucket} detail={json.dumps(detail, default=str)[:2000]}")
        print(f"VIOLATION property={pid} replay={path}")
        return 1
    print(f"replay {path}: no discrepancy")
    return 0


def main(argv):
    if len(argv) < 2:
        print(__doc__)
        return 2
    pid, tier = argv[0].upper(), argv[1]
    if tier not in ("quick", "thorough"):
        print("tier must be quick or thorough")
        return 2
    if "--replay" in argv:
        return run_replay(pid, argv[argv.index("--replay") + 1])
    seed = int(os.environ.get("VERIF_SEED", "1") or "1")
    t0 = time.time()
    from pv import ctx, findings
    prop = load_prop(pid)
    sys.setrecursionlimit(5000)
    child_out = argv[argv.index("--out") + 1] if "--out" in argv else None
    configs = (getattr(prop, "CONFIGS_THOROUGH", None) if tier == "thorough" else None) or getattr(prop, "CONFIGS", None)
    if configs and "--config" not in argv:
        return run_configs(pid, tier, seed, prop, configs, t0)

    # 0. reference kit self-test (cheap): a broken reference must never produce VIOLATION lines
    from pv.ref import selfcheck
    selfcheck.run()

    # 1. known findings: which are still reproducible -> their models / exclusions are active
    active = findings.determine_active(pid, prop)
    ctx.ACTIVE = frozenset(active)

    total = Stats()
    # 2. committed corpus (sentinels, fixed-defect reproducers)
    corpus = list(prop.corpus()) if hasattr(prop, "corpus") else []
    corpus += findings.load_corpus(pid)
    for name, case in corpus:
        res = _check(prop, case, total)
        total.extra["corpus_cases"] += 1
        for bucket, detail in res.disc:
            total.found.setdefault(f"{bucket}", {"case": case, "detail": detail, "corpus": name})

    plan = prop.plan(tier)   # {"exhaustive": [chunks], "streams": {name: n_examples}, "shards": k, "budget_s": s}
    nproc = int(os.environ.get("PV_PROCS", "16"))
    # wall-clock budget for the generated streams: far above what the unchanged tree needs (quick checks take under
    # a minute), it only matters on trees where a defect makes the library slower and slower (e.g. a list that grows
    # across calls); shards then stop generating and whatever was found so far is reported
    budget = float(os.environ.get("PV_BUDGET_S", plan.get("budget_s", 240 if tier == "quick" else 7200)) or 0)
    deadline_ts = (t0 + budget) if budget else 0
    jobs_e = [(pid, tier, ch) for ch in plan.get("exhaustive", [])]
    shards = plan.get("shards", nproc)
    jobs_h = []
    for stream, n in plan.get("streams", {}).items():
        per = max(1, n // shards)
        for sh in range(shards):
            jobs_h.append((pid, tier, seed, sh, per, deadline_ts, stream if stream != "main" else None))
    exhaustive_complete = True
    fuzz_procs = start_fuzz(pid, plan, seed)
    with mp.get_context("fork").Pool(nproc, initializer=_init_worker, initargs=(sorted(active),)) as pool:
        r_e = pool.map_async(exhaustive_worker, jobs_e, chunksize=1) if jobs_e else None
        r_h = pool.map_async(hypothesis_worker, jobs_h, chunksize=1) if jobs_h else None
        for r in (r_e, r_h):
            if r is not None:
                for s in r.get():
                    total.merge(s)
        # shrink each bucket's smallest case with the bounded reducer (time-boxed)
        if total.found:
            per = 20 if tier == "quick" else 90
            jobs_r = [(pid, b, v["case"], per, sorted(active)) for b, v in total.found.items() if "corpus" not in v]
            for bucket, case, detail, repro in pool.map(reduce_worker, jobs_r, chunksize=1):
                if repro:
                    total.found[bucket]["case"] = case
                    total.found[bucket]["detail"] = detail
                else:
                    total.found[bucket]["detail"] = {"note": "not reproducible in a second run of the same case "
                                                     "(result depends on hash/address order)", "first": total.found[bucket]["detail"]}
    collect_fuzz(fuzz_procs, total)
    if total.harness_error:
        print("HARNESS ERROR:\n" + total.harness_error)
        return 2
    if child_out:
        import pickle
        with open(child_out, "wb") as fh:
            pickle.dump({"stats": total, "active": sorted(active), "plan": plan, "ncorpus": len(corpus)}, fh)
        return 0
    return report(pid, tier, seed, prop, total, active, plan, bool(jobs_e), corpus, t0)


def start_fuzz(pid, plan, seed):
    """Coverage-guided campaigns (atheris) declared by the property's plan; thorough tier only."""
    import subprocess
    import tempfile
    procs = []
    for spec in plan.get("fuzz", []):
        for sh in range(spec.get("shards", 1)):
            out = tempfile.mkdtemp(prefix="pv_fuzz_")
            args = [sys.executable, os.path.join(ROOT, spec["script"]), out, str(spec["runs"]), str(shard_seed(seed, pid + "fuzz", sh) % 2 ** 31)]
            if spec.get("corpus"):
                args.append(os.path.join(ROOT, spec["corpus"]))
            procs.append((out, subprocess.Popen(args, stdout=subprocess.DEVNULL, stderr=subprocess.DEVNULL, cwd=ROOT)))
    return procs


def collect_fuzz(procs, total):
    import shutil
    for out, p in procs:
        try:
            p.wait(timeout=3600)
        except Exception:
            p.kill()
        try:
            with open(os.path.join(out, "stats.json")) as fh:
                st = json.load(fh)
        except Exception:
            st = None
        if not st or not st.get("executions"):
            total.extra["fuzz_campaigns_without_result"] += 1
        else:
            total.evaluations += st["executions"]
            total.extra["fuzz_executions"] += st["executions"]
            total.extra["fuzz_nontrivial_inputs"] += st.get("nontrivial", 0)
            total.extra["fuzz_campaigns"] += 1
            for b, v in st.get("found", {}).items():
                key = "fuzz:" + b
                cur = total.found.get(key)
                if cur is None or _size(v["case"]) < _size(cur["case"]):
                    total.found[key] = v
            for smp in st.get("samples", [])[:2]:
                total.samples.setdefault("fuzz", []).append({"text": smp}) if len(total.samples.get("fuzz", [])) < 2 else None
        shutil.rmtree(out, ignore_errors=True)


def run_configs(pid, tier, seed, prop, configs, t0):
    """Configuration-quantified properties: the library reads its settings at import, so every
    configuration runs in its own interpreter; results are merged here."""
    import pickle
    import subprocess
    import tempfile
    total = Stats()
    active_all, plan, ncorpus = set(), {}, 0
    procs = []
    for name, env in configs.items():
        out = tempfile.NamedTemporaryFile(prefix="pv_cfg_", suffix=".pkl", delete=False).name
        e = dict(os.environ)
        e.update(env)
        e["PV_CONFIG"] = name
        e["PV_PROCS"] = str(max(2, int(os.environ.get("PV_PROCS", "16")) // max(1, len(configs))))
        procs.append((name, out, subprocess.Popen([sys.executable, "-m", "pv.runner", pid, tier, "--config", name, "--out", out],
                                                  env=e, stdout=subprocess.PIPE, stderr=subprocess.STDOUT, text=True)))
    rc = 0
    seen_lines = set()
    for name, out, p in procs:
        text, _ = p.communicate()
        for line in text.splitlines():
            if line.startswith(("KNOWN-FINDING:", "note:")):
                if line not in seen_lines:
                    seen_lines.add(line)
                    print(line)
            elif line.strip():
                print(f"[{name}] {line}")
        if p.returncode != 0:
            rc = 2
            continue
        with open(out, "rb") as fh:
            d = pickle.load(fh)
        os.unlink(out)
        st = d["stats"]
        st.found = {f"{b} [config {name}]": v for b, v in st.found.items()}
        for v in st.found.values():
            v["config"] = name
        total.merge(st)
        total.extra[f"config:{name}:cases"] += st.evaluations
        active_all |= set(d["active"])
        plan = d["plan"]
        ncorpus += d["ncorpus"]
    if rc:
        print("HARNESS ERROR: a configuration run failed")
        return 2
    plan = dict(plan)
    plan["configs"] = {k: v for k, v in configs.items()}
    return report(pid, tier, seed, prop, total, active_all, plan, bool(plan.get("exhaustive")), [None] * ncorpus, t0)


def report(pid, tier, seed, prop, total, active, plan, has_exhaustive, corpus, t0):
    shards = plan.get("shards", 16)
    jobs_e = has_exhaustive
    exhaustive_complete = True
    # 3. report
    nviol = 0
    for bucket, v in sorted(total.found.items()):
        path = write_replay(pid, bucket, v["case"], v["detail"], v.get("config"))
        print(f"  bucket={bucket} detail={json.dumps(v['detail'], default=str)[:1500]}")
        print(f"VIOLATION property={pid} replay={path}")
        nviol += 1
    wall = time.time() - t0
    samples = []
    for label, lst in sorted(total.samples.items()):
        for c in lst:
            if len(samples) < MAX_SAMPLES:
                samples.append({"class": label, "case": c})
    if not samples and corpus and corpus[0]:
        samples = [{"class": "corpus", "case": corpus[0][1]}]
    ev = {
        "property_id": pid, "tier": tier, "seed": seed, "level": "exploration",
        "coverage": {
            "evaluations": total.evaluations,
            "distinct_nontrivial": len(total.nontrivial),
            "rule": prop.RULE,
            "samples": samples,
            "exhaustive": bool(jobs_e) and exhaustive_complete and bool(plan.get("exhaustive_is_complete", False)),
            "exhaustive_spaces": plan.get("exhaustive_note", ""),
            "class_histogram": dict(total.classes.most_common()),
            "explained_by_known_finding": dict(total.known),
            "excluded_or_skipped": dict(total.skipped),
            "active_known_findings": sorted(active),
            "corpus_cases": total.extra.get("corpus_cases", 0),
            "hypothesis": {"streams": plan.get("streams", {}), "shards": shards,
                           "settings": "database=None deadline=None derandomize=False report_multiple_bugs=False"},
            "configurations": plan.get("configs", {}),
            "budget_stops": total.extra.get("budget_stop", 0),
            "extra": {k: v for k, v in total.extra.items() if k not in ("corpus_cases", "budget_stop")},
        },
        "assumptions": list(getattr(prop, "ASSUMPTIONS", [])),
        "wall_s": round(wall, 2),
        "violations": nviol,
    }
    os.makedirs(os.path.join(OUT, "evidence"), exist_ok=True)
    with open(os.path.join(OUT, "evidence", f"{pid}.json"), "w") as fh:
        json.dump(ev, fh, indent=1, default=str)
    print(f"{pid} {tier} seed={seed}: {total.evaluations} cases, {len(total.nontrivial)} distinct non-trivial, "
          f"{nviol} violation bucket(s), known={dict(total.known)}, skipped={sum(total.skipped.values())}, {wall:.1f}s")
    return 1 if nviol else 0


if __name__ == "__main__":
    try:
        rc = main(sys.argv[1:])
    except SystemExit:
        raise
    except BaseException:
        traceback.print_exc()
        rc = 2
    sys.exit(rc)
