"""Run context shared by generators and checks."""
ACTIVE = frozenset()   # ids of known findings whose reproducer still fails on this tree


def active(fid):
    return fid in ACTIVE
