"""Bridges between the reference model (plain data) and library objects.  Only public attributes,
printed text and documented entry points of the library are used."""
from collections import Counter, defaultdict
from fractions import Fraction

from pv.lib import lib_call, parse_domain_text, parse_problem_text
from pv.ref import pddl, sexpr


def domain_text(dom, layout=None):
    return sexpr.render(pddl.domain_tree(dom), layout)


def problem_text(dom, objects, st, goal=None, name="pr", layout=None, group_objects=False):
    return sexpr.render(pddl.problem_tree(name, dom["name"], objects, st, goal, dom.get("typed", True),
                                          group_objects), layout)


def parse_domain(dom, layout=None, **kw):
    return lib_call(parse_domain_text, domain_text(dom, layout), **kw)


def lib_objects(domain, problem_or_objects):
    """Object table handed to Operator: problem objects plus domain constants (the constants are
    objects of the problem too; the library keeps them in a separate table)."""
    objs = dict(problem_or_objects.objects if hasattr(problem_or_objects, "objects") else problem_or_objects)
    for k, v in domain.constants.items():
        objs.setdefault(k, v)
    return objs


def build_objects(domain, objects):
    from pddl_plus_parser.models import PDDLObject
    return {n: PDDLObject(name=n, type=domain.types[t]) for n, t in objects}


def build_state(domain, world, st, is_init=True, variants=False, empty_groups=False):
    """Constructs a library State the way ProblemParser does (same keys, same object kinds).  variants=True
    additionally stores, for every fact with an argument whose own type is a strict subtype of the declared
    parameter type, the same fact annotated with the arguments' own types - what an add effect of an action whose
    parameters have those types leaves in a state that already held the fact."""
    from pddl_plus_parser.models import GroundedPredicate, PDDLFunction, State
    preds = defaultdict(set)
    for atom in sorted(st[0]):
        lifted = domain.predicates[atom[0]]
        mapping = {param: obj for obj, param in zip(atom[1:], lifted.signature)}
        preds[lifted.untyped_representation].add(
            GroundedPredicate(name=atom[0], signature=lifted.signature, object_mapping=mapping))
        if variants:
            own = {param: domain.types[world.objects[obj]] for obj, param in zip(atom[1:], lifted.signature)}
            if any(own[p].name != lifted.signature[p].name for p in own):
                preds[lifted.untyped_representation].add(
                    GroundedPredicate(name=atom[0], signature=own, object_mapping=dict(mapping)))
    if empty_groups:
        # predicates without a fact keep an (empty) entry, as a delete effect that removed the last fact leaves it
        for lifted in domain.predicates.values():
            preds.setdefault(lifted.untyped_representation, set())
    fluents = {}
    for key in sorted(st[1]):
        v = st[1][key]
        sig = {o: domain.types[world.objects[o]] for o in key[1:]}
        rep = {o: c for o, c in Counter(key[1:]).items() if c > 1}
        f = PDDLFunction(name=key[0], signature=sig, repeating_variables=rep)
        f.set_value(float(v))
        fluents[f.untyped_representation] = f
    return State(predicates=preds, fluents=fluents, is_init=is_init)


def state_via_problem(domain, dom, objects, st):
    """(problem, State) through the library's problem parser."""
    from pddl_plus_parser.models import State
    prob = parse_problem_text(problem_text(dom, objects, st), domain)
    return prob, State(prob.initial_state_predicates, prob.initial_state_fluents, is_init=True)


class BadState(Exception):
    pass


class NonFinite(Exception):
    """A fluent overflowed to inf / nan in floating point: the case is outside what exact rationals can judge."""


def read_state_text(text):
    """Serialized state text -> reference state, with an independent reader."""
    try:
        tree = sexpr.read(text)
    except sexpr.Reject as e:
        raise BadState(f"unreadable state text: {e}: {text[:200]!r}")
    return read_state_tree(tree)


def read_state_tree(tree):
    if not tree or tree[0] not in (":init", ":state"):
        raise BadState(f"state text does not start with :init/:state: {tree[:1]}")
    facts, fl = set(), {}
    for e in tree[1:]:
        if isinstance(e, str) or not e:
            raise BadState(f"stray item in state: {e!r}")
        if e[0] == "=":
            if len(e) != 3 or isinstance(e[1], str) or not isinstance(e[2], str):
                raise BadState(f"malformed fluent {e!r}")
            key = tuple(e[1])
            if e[2].lstrip("+-") in ("inf", "nan", "infinity"):
                raise NonFinite(f"{e!r}")
            try:
                val = Fraction(e[2])
            except (ValueError, ZeroDivisionError):
                raise BadState(f"non-numeric fluent value {e!r}")
            if key in fl:
                raise BadState(f"fluent listed twice {e!r}")
            fl[key] = val
        else:
            if any(not isinstance(x, str) for x in e):
                raise BadState(f"malformed fact {e!r}")
            facts.add(tuple(e))
    return frozenset(facts), fl


def read_lib_state(state):
    return read_state_text(state.serialize())


def jstate(st):
    """reference state -> JSON-able."""
    return {"facts": sorted(list(a) for a in st[0]),
            "fluents": sorted([list(k), str(v)] for k, v in st[1].items())}


def unjstate(js):
    return (frozenset(tuple(a) for a in js["facts"]),
            {tuple(k): Fraction(v) for k, v in js["fluents"]})
