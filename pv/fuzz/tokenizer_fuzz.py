#!/venv/bin/python
"""Atheris (libFuzzer) campaign for C11: raw bytes -> ASCII text -> PDDLTokenizer (string and file
mode) versus the reference reader.  The oracle sits inside the target; a discrepancy is saved as a
JSON replay case (the reproducible unit) and the campaign continues.

usage: tokenizer_fuzz.py <out_dir> <runs> <seed> [corpus_dir]
Writes <out_dir>/stats.json (rewritten every 500 executions: atexit handlers do not run under atheris)."""
import json
import os
import sys
import time

OUT, RUNS, SEED = sys.argv[1], int(sys.argv[2]), int(sys.argv[3])
CORPUS = sys.argv[4] if len(sys.argv) > 4 else None
os.makedirs(OUT, exist_ok=True)

import atheris  # noqa: E402

with atheris.instrument_imports(include=["pddl_plus_parser.lisp_parsers.pddl_tokenizer"]):
    from pddl_plus_parser.lisp_parsers import PDDLTokenizer  # noqa: F401

from pv.props import c11  # noqa: E402
from pv import ctx, findings  # noqa: E402

ctx.ACTIVE = frozenset(findings.determine_active("C11", c11, quiet=True))
ALPHABET = "()ab ?x;\n\t\r-:B_1"
COMMENT_CHARS = c11.COMMENT_ALPHA
STATS = {"executions": 0, "nontrivial": 0, "found": {}, "t0": time.time(), "samples": []}
SEEN = set()


def decode(data: bytes) -> str:
    # three decoders share the byte stream: small-alphabet mapping (structure-dense), printable ASCII, comment-rich
    if not data:
        return ""
    if data[0] % 3 == 1:
        return "".join(ALPHABET[b % len(ALPHABET)] for b in data[1:])
    if data[0] % 3 == 2:
        # printable ASCII outside comments, any character (but a line end) inside them
        out, in_comment = [], False
        for b in data[1:]:
            if in_comment:
                c = "\n" if b == 10 else COMMENT_CHARS[b % len(COMMENT_CHARS)]
            else:
                c = chr(b) if 32 <= b < 127 or b in (9, 10) else " "
            in_comment = (in_comment or c == ";") and c != "\n"
            out.append(c)
        return "".join(out)
    return "".join(chr(b) if 32 <= b < 127 or b in (9, 10, 13) else " " for b in data[1:])


def flush():
    STATS["wall_s"] = round(time.time() - STATS["t0"], 1)
    with open(os.path.join(OUT, "stats.json"), "w") as fh:
        json.dump(STATS, fh)


def one(data: bytes):
    text = decode(data)
    if "\r" in text.replace("\r\n", ""):     # a lone CR is not a line end for the reference (see C11 assumptions)
        return
    case = {"text": text, "tree": None, "mode": "both", "nsep": 2, "depth": 2}
    res = c11.check_case(case)
    STATS["executions"] += 1
    h = hash(text)
    if res.nontrivial and h not in SEEN:
        SEEN.add(h)
        STATS["nontrivial"] += 1
        if len(STATS["samples"]) < 5 and len(text) > 8:
            STATS["samples"].append(text[:80])
    for bucket, detail in res.disc:
        cur = STATS["found"].get(bucket)
        if cur is None or len(text) < len(cur["case"]["text"]):
            STATS["found"][bucket] = {"case": case, "detail": detail}
    if STATS["executions"] % 500 == 0:
        flush()


def main():
    argv = [sys.argv[0], f"-runs={RUNS}", f"-seed={SEED or 1}", "-max_len=96", "-print_final_stats=0", "-verbosity=0"]
    work = os.path.join(OUT, "corpus")
    os.makedirs(work, exist_ok=True)
    argv.append(work)
    if CORPUS:
        argv.append(CORPUS)
    atheris.Setup(argv, one)
    try:
        atheris.Fuzz()
    finally:
        flush()


if __name__ == "__main__":
    flush()
    main()
